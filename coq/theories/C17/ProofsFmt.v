(* C17 lemmas, part 3: integers and booleans read back, sorting is a permutation, assignments in any order reach
   the target, FormatSimple -> ParseSimple round trip, later-wins, unknown keys. *)
From Coq Require Import ZArith List Bool Lia Arith Permutation Decimal DecimalPos.
Import ListNotations.
From V Require Import Base.Tree Gen.GenC17 C17.Model C17.Spec C17.Proofs C17.ProofsTok.
Open Scope Z_scope.

(* ---------------------------------------------------------------- strconv.Itoa / ParseInt *)
Lemma to_uint_chars : forall u, to_uint (uint_chars u) = Some u.
Proof. induction u as [|u IH|u IH|u IH|u IH|u IH|u IH|u IH|u IH|u IH|u IH]; simpl; try rewrite IH; reflexivity. Qed.

Lemma uint_chars_head : forall u, u <> Nil -> exists c r, uint_chars u = c :: r /\ 48 <= c <= 57.
Proof. intros u H. destruct u; [contradiction|..]; simpl; eexists; eexists; (split; [reflexivity|lia]). Qed.

Lemma uint_chars_digits : forall u, Forall (fun c => 48 <= c <= 57) (uint_chars u).
Proof. induction u as [|u IH|u IH|u IH|u IH|u IH|u IH|u IH|u IH|u IH|u IH]; simpl; constructor; try lia; exact IH. Qed.

Lemma parse_digits_chars : forall u, u <> Nil -> parse_digits (uint_chars u) = Some (Z.of_uint u).
Proof.
  intros u H. unfold parse_digits. destruct (uint_chars_head u H) as [c [r [E _]]].
  rewrite to_uint_chars. rewrite E. reflexivity.
Qed.

Lemma sign_split_digit : forall c r, 48 <= c <= 57 -> sign_split (c :: r) = parse_digits (c :: r).
Proof.
  intros c r H.
  assert (D : c = 48 \/ c = 49 \/ c = 50 \/ c = 51 \/ c = 52 \/ c = 53 \/ c = 54 \/ c = 55 \/ c = 56 \/ c = 57) by lia.
  repeat (destruct D as [D|D]; [subst c; reflexivity|]). subst c. reflexivity.
Qed.

Lemma of_uint_to_uint : forall p, Z.of_uint (Pos.to_uint p) = Zpos p.
Proof. intros p. unfold Z.of_uint. rewrite DecimalPos.Unsigned.of_to. reflexivity. Qed.

Lemma parse_int_itoa : forall z, - 2 ^ 63 <= z < 2 ^ 63 -> parse_int (itoa z) = Some z.
Proof.
  intros z Hz.
  assert (R : (- 2 ^ 63 <=? z) && (z <? 2 ^ 63) = true).
  { apply andb_true_iff. split; [apply Z.leb_le|apply Z.ltb_lt]; lia. }
  unfold parse_int, itoa. destruct z as [|p|p]; cbn [Z.to_int].
  - reflexivity.
  - pose proof (DecimalPos.Unsigned.to_uint_nonnil p) as Hn.
    destruct (uint_chars_head _ Hn) as [c [r [E Hc]]].
    rewrite E, sign_split_digit by exact Hc. rewrite <- E.
    rewrite parse_digits_chars by exact Hn. rewrite of_uint_to_uint. rewrite R. reflexivity.
  - pose proof (DecimalPos.Unsigned.to_uint_nonnil p) as Hn.
    cbn [sign_split]. rewrite parse_digits_chars by exact Hn. rewrite of_uint_to_uint.
    cbn [option_map Z.opp]. rewrite R. reflexivity.
Qed.

Lemma itoa_bare : forall z, bare_ok (itoa z).
Proof.
  intros z. unfold itoa, bare_ok.
  assert (D : forall u, Forall (fun c : Z => c <> 32 /\ c <> 34 /\ c <> 39) (uint_chars u)).
  { intros u. eapply Forall_impl; [|apply uint_chars_digits]. intros c Hc. cbv beta in Hc. lia. }
  destruct (Z.to_int z) as [u|u]; [apply D|]. constructor; [lia|apply D].
Qed.

(* ---------------------------------------------------------------- upd *)
Lemma length_upd : forall {A} i (x : A) l, length (upd i x l) = length l.
Proof.
  intros A i x l. revert i. induction l as [|a r IH]; intros i; [reflexivity|].
  destruct i as [|j]; cbn [upd length]; [reflexivity|]. rewrite IH. reflexivity.
Qed.
Lemma nth_error_upd_eq : forall {A} i (x : A) l, (i < length l)%nat -> nth_error (upd i x l) i = Some x.
Proof.
  intros A i x l. revert i. induction l as [|a r IH]; intros i H; [cbn [length] in H; lia|].
  destruct i as [|j]; cbn [upd nth_error]; [reflexivity|]. apply IH. cbn [length] in H. lia.
Qed.
Lemma nth_error_upd_neq : forall {A} i j (x : A) l, i <> j -> nth_error (upd i x l) j = nth_error l j.
Proof.
  intros A i j x l. revert i j. induction l as [|a r IH]; intros i j H; [reflexivity|].
  destruct i as [|i']; destruct j as [|j']; cbn [upd nth_error]; try reflexivity; [contradiction|].
  apply IH. lia.
Qed.
Lemma list_ext : forall {A} (l l' : list A), length l = length l' ->
  (forall j, (j < length l')%nat -> nth_error l j = nth_error l' j) -> l = l'.
Proof.
  intros A l. induction l as [|a r IH]; intros [|b r'] HL H; try discriminate; [reflexivity|].
  pose proof (H 0%nat ltac:(cbn [length]; lia)) as H0. cbn [nth_error] in H0. inversion H0 as [E]. subst b.
  f_equal. apply IH; [cbn [length] in HL; lia|].
  intros j Hj. apply (H (S j)). cbn [length]. lia.
Qed.
Lemma shape_upd : forall i x st old, nth_error st i = Some old -> kind_of old = kind_of x ->
  shape (upd i x st) = shape st.
Proof.
  intros i x st. revert i. induction st as [|a r IH]; intros i old H K; [reflexivity|].
  destruct i as [|j]; cbn [upd shape map] in *.
  - inversion H as [E]. subst a. rewrite K. reflexivity.
  - f_equal. apply (IH j old); assumption.
Qed.

Lemma typed_kind : forall old t x, typed old t = Some x -> kind_of x = kind_of old.
Proof.
  intros old t x H. destruct old as [s|b|z]; cbn [typed] in H.
  - inversion H. reflexivity.
  - destruct (parse_bool t); inversion H. reflexivity.
  - destruct (parse_int t); inversion H. reflexivity.
Qed.
Lemma typed_by_kind : forall old old' t, kind_of old = kind_of old' -> typed old t = typed old' t.
Proof. intros [s|b|z] [s'|b'|z'] t H; try discriminate; reflexivity. Qed.

Lemma set_value_ok : forall st i t st', set_value st i t = Ok st' ->
  exists old x, nth_error st i = Some old /\ typed old t = Some x /\ st' = upd i x st.
Proof.
  intros st i t st' H. unfold set_value in H. destruct (nth_error st i) as [old|]; [|discriminate].
  destruct (typed old t) as [x|] eqn:E; [|discriminate]. inversion H. exists old, x. repeat split. exact E.
Qed.

(* ---------------------------------------------------------------- assignments reach the target *)
Lemma run_toks_target : forall tab toks target st,
  shape st = shape target ->
  (forall t, In t toks -> exists i x, lookup (tok_key t) tab = Some i /\ nth_error target i = Some x /\
      (forall old, kind_of old = kind_of x -> typed old (tok_payload t) = Some x)) ->
  (forall j, (j < length target)%nat ->
      (exists t, In t toks /\ lookup (tok_key t) tab = Some j) \/ nth_error st j = nth_error target j) ->
  run_toks tab toks st = Ok target.
Proof.
  intros tab toks target. induction toks as [|t r IH]; intros st Hs Ht Hc.
  - cbn [run_toks]. f_equal. apply list_ext.
    + unfold shape in Hs. pose proof (f_equal (@length nat) Hs) as L. rewrite !map_length in L. exact L.
    + intros j Hj. destruct (Hc j Hj) as [[t [[] _]]|E]. exact E.
  - cbn [run_toks]. destruct (Ht t ltac:(left; reflexivity)) as [i [x [Hl [Hx Hty]]]]. rewrite Hl.
    assert (Li : (i < length target)%nat) by (apply nth_error_Some; rewrite Hx; discriminate).
    assert (LS : length st = length target).
    { unfold shape in Hs. pose proof (f_equal (@length nat) Hs) as L. rewrite !map_length in L. exact L. }
    destruct (nth_error st i) as [old|] eqn:Eo; [|apply nth_error_None in Eo; lia].
    assert (Ko : kind_of old = kind_of x).
    { unfold shape in Hs. pose proof (f_equal (fun l => nth_error l i) Hs) as N. cbv beta in N.
      rewrite !nth_error_map, Eo, Hx in N. cbn [option_map] in N. inversion N. reflexivity. }
    unfold set_value. rewrite Eo, (Hty old Ko). cbn [bind].
    apply IH.
    + rewrite (shape_upd i x st old Eo Ko). exact Hs.
    + intros t' Hin. apply Ht. right. exact Hin.
    + intros j Hj. destruct (Nat.eq_dec i j) as [E|NE].
      * subst j. right. rewrite nth_error_upd_eq by lia. symmetry. exact Hx.
      * destruct (Hc j Hj) as [[t' [[Et|Hin] Hl']]|E].
        -- subst t'. rewrite Hl in Hl'. inversion Hl'. contradiction.
        -- left. exists t'. split; assumption.
        -- right. rewrite nth_error_upd_neq by exact NE. exact E.
Qed.

(* ---------------------------------------------------------------- sorting permutes *)
Lemma insert_map : forall {A B} (f : A -> B) le x l,
  exists l', Permutation l' (x :: l) /\ map f l' = insert_by le (f x) (map f l).
Proof.
  intros A B f le x l. induction l as [|y r IH].
  - exists [x]. split; [apply Permutation_refl|reflexivity].
  - cbn [map insert_by]. destruct (le (f x) (f y)).
    + exists (x :: y :: r). split; [apply Permutation_refl|reflexivity].
    + destruct IH as [l' [P E]]. exists (y :: l'). split.
      * eapply perm_trans; [apply perm_skip; exact P|apply perm_swap].
      * cbn [map]. rewrite E. reflexivity.
Qed.

Lemma sort_map : forall {A B} (f : A -> B) le l,
  exists l', Permutation l' l /\ map f l' = sort_by le (map f l).
Proof.
  intros A B f le l. induction l as [|x r IH].
  - exists []. split; [apply perm_nil|reflexivity].
  - destruct IH as [r' [P E]]. cbn [map]. unfold sort_by in *. cbn [fold_right]. rewrite <- E.
    destruct (insert_map f le x r') as [l' [P' E']]. exists l'. split; [|exact E'].
    eapply perm_trans; [exact P'|apply perm_skip; exact P].
Qed.

(* ---------------------------------------------------------------- FormatSimple writes well-formed tokens *)
Definition tok_of (key : str) (x : value) : token :=
  match x with
  | VS s => Quoted key 34 s
  | VB b => Bare key (if b then [116; 114; 117; 101] else [102; 97; 108; 115; 101])
  | VI z => Bare key (itoa z)
  end.

Lemma plain_noquote : forall s, forallb plain s = true -> noquote s.
Proof.
  intros s H. unfold noquote. apply Forall_forall. intros c Hc.
  rewrite forallb_forall in H. specialize (H c Hc). unfold plain in H.
  repeat (apply andb_true_iff in H; destruct H as [H ?]).
  split; intros E; subst c; discriminate.
Qed.

Lemma key_char_b_ok : forall key, forallb key_char_b key = true -> key_ok key.
Proof.
  intros key H. unfold key_ok. apply Forall_forall. intros c Hc.
  rewrite forallb_forall in H. specialize (H c Hc). unfold key_char_b in H.
  repeat (apply andb_true_iff in H; destruct H as [H ?]).
  unfold key_char. repeat split; intros E; subst c; discriminate.
Qed.

Lemma tokens_struct : forall tab v,
  (forall e, In e tab -> key_ok (fst e) /\ (snd e < length v)%nat) -> plain_vals v ->
  exists toks, tokens tab v = Some (map tok_str toks) /\ Forall tok_wf toks /\ length toks = length tab /\
    (forall t, In t toks -> exists key i x, In (key, i) tab /\ nth_error v i = Some x /\ t = tok_of key x) /\
    (forall key i, In (key, i) tab -> exists x, nth_error v i = Some x /\ In (tok_of key x) toks).
Proof.
  intros tab v. induction tab as [|[key i] r IH]; intros Ht Hp.
  - exists []. cbn [tokens map length]. repeat split; try constructor; intros; contradiction.
  - destruct IH as [toks [E [W [L [F G]]]]]; [intros e He; apply Ht; right; exact He|exact Hp|].
    destruct (Ht (key, i) ltac:(left; reflexivity)) as [Hk Hi]. cbn [fst snd] in Hk, Hi.
    destruct (nth_error v i) as [x|] eqn:Ex; [|apply nth_error_None in Ex; lia].
    assert (Hr : render x = Some (match x with VS s => 34 :: s ++ [34] | _ => tok_payload (tok_of key x) end) /\ tok_wf (tok_of key x)).
    { destruct x as [s|b|z]; cbn [render tok_of tok_payload tok_wf].
      - assert (P : forallb plain s = true) by (apply Hp; eapply nth_error_In; exact Ex).
        rewrite P. split; [reflexivity|]. split; [exact Hk|]. split; [left; reflexivity|apply plain_noquote; exact P].
      - split; [destruct b; reflexivity|]. split; [exact Hk|].
        destruct b; unfold bare_ok; repeat constructor; discriminate.
      - split; [reflexivity|]. split; [exact Hk|apply itoa_bare]. }
    destruct Hr as [Hr Hw].
    exists (tok_of key x :: toks). cbn [tokens]. rewrite Ex, E, Hr. split; [|split; [|split; [|split]]].
    + cbn [map]. f_equal. f_equal. destruct x as [s|b|z]; reflexivity.
    + constructor; assumption.
    + cbn [length]. rewrite L. reflexivity.
    + intros t [Et|Hin].
      * subst t. exists key, i, x. split; [left; reflexivity|]. split; [exact Ex|reflexivity].
      * destruct (F t Hin) as [key' [i' [x' [A [B C]]]]]. exists key', i', x'. split; [right; exact A|]. split; assumption.
    + intros key' i' [Ee|Hin].
      * inversion Ee. subst key' i'. exists x. split; [exact Ex|left; reflexivity].
      * destruct (G key' i' Hin) as [x' [A B]]. exists x'. split; [exact A|right; exact B].
Qed.

Lemma typed_tok_of : forall key x old, kind_of old = kind_of x ->
  (forall z, x = VI z -> - 2 ^ 63 <= z < 2 ^ 63) -> typed old (tok_payload (tok_of key x)) = Some x.
Proof.
  intros key x old K Hz. destruct x as [s|b|z]; destruct old as [s'|b'|z']; try discriminate; cbn [tok_of tok_payload typed].
  - reflexivity.
  - destruct b; reflexivity.
  - rewrite parse_int_itoa by (apply Hz; reflexivity). reflexivity.
Qed.

(* table facts unpacked *)
Lemma table_facts : forall k, table_ok k = true ->
  jtab k <> [] /\
  (forall e, In e (mtab k) -> key_ok (fst e)) /\
  (forall e, In e (jtab k) -> key_ok (fst e)) /\
  (forall key i, In (key, i) (jtab k) -> lookup key (mtab k) = Some i) /\
  (forall j, (j < length (kinds k))%nat -> exists key, In (key, j) (jtab k)) /\
  (forall e, In e (mtab k) -> (snd e < length (kinds k))%nat).
Proof.
  intros k H. unfold table_ok in H.
  apply andb_true_iff in H. destruct H as [H H6].
  apply andb_true_iff in H. destruct H as [H H5].
  apply andb_true_iff in H. destruct H as [H H4].
  apply andb_true_iff in H. destruct H as [H H3].
  apply andb_true_iff in H. destruct H as [H1 H2].
  rewrite forallb_forall in H2, H3, H4, H5, H6.
  split; [|split; [|split; [|split; [|split]]]].
  - intros E. rewrite E in H1. discriminate.
  - intros e He. apply key_char_b_ok. apply H2. exact He.
  - intros e He. apply key_char_b_ok. apply H3. exact He.
  - intros key i Hin. specialize (H4 (key, i) Hin). cbn [fst snd] in H4.
    destruct (lookup key (mtab k)) as [i'|]; [|discriminate].
    apply Nat.eqb_eq in H4. subst i'. reflexivity.
  - intros j Hj. specialize (H5 j ltac:(apply in_seq; lia)). apply existsb_exists in H5.
    destruct H5 as [[key j'] [Hin E]]. cbn [snd] in E. apply Nat.eqb_eq in E. subst j'. exists key. exact Hin.
  - intros e He. specialize (H6 e He). apply Nat.ltb_lt in H6. exact H6.
Qed.

Lemma simple_roundtrip : forall k v init, table_ok k = true ->
  shape v = kinds k -> shape init = kinds k -> plain_vals v -> ints_ok v ->
  exists text, format_simple k v = Some text /\ parse_simple k text init = Ok v.
Proof.
  intros k v init Hok Hv Hi Hp Hz.
  destruct (table_facts k Hok) as [Jne [Mk [Jk [JM [Cov Mb]]]]].
  assert (Lv : length v = length (kinds k)) by (rewrite <- Hv; unfold shape; rewrite map_length; reflexivity).
  destruct (tokens_struct (jtab k) v) as [toks [E [W [L [F G]]]]].
  { intros e He. split; [apply Jk; exact He|]. destruct e as [key i].
    pose proof (JM key i He) as Hl. cbn [snd].
    assert (Hin : In (key, i) (mtab k)).
    { clear - Hl. induction (mtab k) as [|[k' i'] r IH]; [discriminate|]. cbn [lookup] in Hl.
      destruct (str_eqb key k') eqn:Ek.
      - apply str_eqb_eq in Ek. inversion Hl. subst. left. reflexivity.
      - right. apply IH. exact Hl. }
    rewrite Lv. apply (Mb (key, i) Hin). }
  { exact Hp. }
  unfold format_simple, format_simple_tab. rewrite E.
  destruct (sort_map tok_str str_leb toks) as [toks' [P Es]].
  eexists. split; [reflexivity|]. rewrite <- Es.
  unfold parse_simple. rewrite sequential.
  - apply run_toks_target.
    + rewrite Hi, Hv. reflexivity.
    + intros t Hin. apply (Permutation_in _ P) in Hin.
      destruct (F t Hin) as [key [i [x [A [B C]]]]]. subst t.
      exists i, x. split; [cbn; destruct x; apply JM; exact A|]. split; [exact B|].
      intros old K. apply typed_tok_of; [exact K|].
      intros z Ez. subst x. apply Hz. eapply nth_error_In. exact B.
    + intros j Hj. left. rewrite Lv in Hj. destruct (Cov j Hj) as [key Hin].
      destruct (G key j Hin) as [x [A B]]. exists (tok_of key x). split.
      * apply (Permutation_in _ (Permutation_sym P)). exact B.
      * destruct x; apply JM; exact Hin.
  - intros En. subst toks'. apply Permutation_nil in P. subst toks. cbn [length] in L.
    destruct (jtab k); [apply Jne; reflexivity|discriminate].
  - apply Forall_forall. intros t Hin. apply (Permutation_in _ P) in Hin.
    rewrite Forall_forall in W. apply W. exact Hin.
Qed.

(* ---------------------------------------------------------------- later occurrences win *)
Lemma run_toks_app : forall tab pre l st r, run_toks tab (pre ++ l) st = Ok r ->
  exists st', run_toks tab pre st = Ok st' /\ run_toks tab l st' = Ok r.
Proof.
  intros tab pre. induction pre as [|t p IH]; intros l st r H.
  - exists st. split; [reflexivity|exact H].
  - rewrite <- app_comm_cons in H. cbn [run_toks] in H. cbn [run_toks]. destruct (lookup (tok_key t) tab) as [i|]; [|discriminate H].
    destruct (set_value st i (tok_payload t)) as [st1| | |]; cbn [bind] in *; try discriminate H.
    apply IH. exact H.
Qed.

Lemma run_toks_shape : forall tab l st r, run_toks tab l st = Ok r -> shape r = shape st.
Proof.
  intros tab l. induction l as [|t p IH]; intros st r H.
  - inversion H. reflexivity.
  - cbn [run_toks] in H. destruct (lookup (tok_key t) tab) as [i|]; [|discriminate H].
    destruct (set_value st i (tok_payload t)) as [st1| | |] eqn:E; cbn [bind] in H; try discriminate H.
    destruct (set_value_ok _ _ _ _ E) as [old [x [A [B C]]]]. subst st1.
    rewrite (IH _ _ H). apply (shape_upd i x st old A). symmetry. apply (typed_kind _ _ _ B).
Qed.

Lemma run_toks_untouched : forall tab l st r i, run_toks tab l st = Ok r ->
  (forall t, In t l -> lookup (tok_key t) tab <> Some i) -> nth_error r i = nth_error st i.
Proof.
  intros tab l. induction l as [|t p IH]; intros st r i H Hn.
  - inversion H. reflexivity.
  - cbn [run_toks] in H. destruct (lookup (tok_key t) tab) as [i'|] eqn:El; [|discriminate H].
    destruct (set_value st i' (tok_payload t)) as [st1| | |] eqn:E; cbn [bind] in H; try discriminate H.
    destruct (set_value_ok _ _ _ _ E) as [old [x [A [B C]]]]. subst st1.
    rewrite (IH _ _ i H) by (intros t' Hin; apply Hn; right; exact Hin).
    apply nth_error_upd_neq. intros Ei. subst i'. apply (Hn t); [left; reflexivity|exact El].
Qed.

Lemma later_wins : forall tab pre t post init r i,
  run_toks tab (pre ++ t :: post) init = Ok r -> lookup (tok_key t) tab = Some i ->
  (forall t', In t' post -> lookup (tok_key t') tab <> Some i) ->
  exists kd x, nth_error (shape init) i = Some kd /\ typed (zero_of kd) (tok_payload t) = Some x /\ nth_error r i = Some x.
Proof.
  intros tab pre t post init r i H Hl Hn.
  destruct (run_toks_app _ _ _ _ _ H) as [st [H1 H2]].
  cbn [run_toks] in H2. rewrite Hl in H2.
  destruct (set_value st i (tok_payload t)) as [st1| | |] eqn:E; cbn [bind] in H2; try discriminate H2.
  destruct (set_value_ok _ _ _ _ E) as [old [x [A [B C]]]]. subst st1.
  exists (kind_of old), x. split; [|split].
  - rewrite <- (run_toks_shape _ _ _ _ H1). unfold shape. rewrite nth_error_map, A. reflexivity.
  - rewrite <- B. apply typed_by_kind. destruct old; reflexivity.
  - rewrite (run_toks_untouched _ _ _ _ i H2 Hn). apply nth_error_upd_eq.
    apply nth_error_Some. rewrite A. discriminate.
Qed.

(* ---------------------------------------------------------------- unknown keys *)
Lemma rejoin_prefix : forall fuel q start part d p' r', rejoin fuel q start part d = Ok (p', r') ->
  exists x, p' = part ++ x.
Proof.
  induction fuel as [|f IH]; intros q start part d p' r' H; [discriminate H|].
  rewrite rejoin_S in H. destruct (go_total part start q) as [b Hb]. rewrite Hb in H. cbn [bind] in H.
  destruct b.
  - destruct (length d =? 0)%nat eqn:E; [discriminate H|].
    destruct (uncons d E) as [x [r [El [Ei Es]]]]. rewrite Ei, Es in H. cbn [bind] in H.
    destruct (IH _ _ _ _ _ _ H) as [y Hy]. exists (32 :: x ++ y). rewrite Hy. rewrite <- app_assoc. reflexivity.
  - inversion H. exists []. rewrite app_nil_r. reflexivity.
Qed.

Lemma requote_prefix : forall qs fuel part d p' r', requote fuel qs part d = Ok (p', r') -> exists x, p' = part ++ x.
Proof.
  induction qs as [|q qs IH]; intros fuel part d p' r' H; cbn [requote] in H.
  - inversion H. exists []. rewrite app_nil_r. reflexivity.
  - destruct (find2 61 q part); [eapply rejoin_prefix; exact H|eapply IH; exact H].
Qed.

Lemma unknown_token : forall tab key s f st, key_ok key -> lookup key tab = None ->
  ps_loop (S f) tab (parts (key ++ 61 :: s)) st = Err \/ ps_loop (S f) tab (parts (key ++ 61 :: s)) st = Fuel.
Proof.
  intros tab key s f st Hk Hl. left.
  destruct (key_ok_notin key Hk) as [K32 [K61 _]].
  rewrite parts_cons.
  replace (key ++ 61 :: s) with ((key ++ [61]) ++ s) by (rewrite <- app_assoc; reflexivity).
  rewrite split_sp_nosp by (intros X; apply in_app_or in X; destruct X as [X|[X|[]]]; [exact (K32 X)|discriminate]).
  cbn [fst snd]. rewrite ps_loop_S. cbn [length Nat.eqb idx nth_error bind].
  rewrite slice_ok by (cbn [length]; lia). cbn [skipn bind].
  replace (S (length (snd (split_sp s))) - 1)%nat with (length (snd (split_sp s))) by lia. rewrite firstn_all.
  destruct (requote (S (length (snd (split_sp s)))) quotations ((key ++ [61]) ++ fst (split_sp s)) (snd (split_sp s)))
    as [[p' r']| | |] eqn:E; cbn [bind]; try reflexivity.
  - destruct (requote_prefix _ _ _ _ _ _ E) as [x Hx]. cbn [fst snd]. subst p'.
    rewrite <- !app_assoc. change (key ++ [61] ++ fst (split_sp s) ++ x) with (key ++ 61 :: (fst (split_sp s) ++ x)).
    unfold splitn2. rewrite split_eq_key by exact K61.
    cbn [length Nat.eqb negb idx nth_error bind].
    destruct (strip_total (fst (split_sp s) ++ x)) as [v' Hv]. rewrite Hv. cbn [bind]. rewrite Hl. reflexivity.
  - pose proof (requote_safe quotations (S (length (snd (split_sp s)))) ((key ++ [61]) ++ fst (split_sp s)) (snd (split_sp s)) ltac:(lia)) as S1.
    rewrite E in S1. destruct S1.
  - pose proof (requote_safe quotations (S (length (snd (split_sp s)))) ((key ++ [61]) ++ fst (split_sp s)) (snd (split_sp s)) ltac:(lia)) as S1.
    rewrite E in S1. destruct S1.
Qed.

Lemma unknown_key : forall tab toks key s init, Forall tok_wf toks -> key_ok key -> lookup key tab = None ->
  parse_simple_tab tab (join32 (map tok_str toks ++ [key ++ 61 :: s])) init = Err.
Proof.
  intros tab toks key s init Hwf Hk Hl.
  pose proof (parse_simple_safe tab (join32 (map tok_str toks ++ [key ++ 61 :: s])) init) as [NP NF].
  unfold parse_simple_tab in *. rewrite parts_join32_snoc in *. rewrite map_map in *.
  rewrite tokens_loop_tail in * by (exact Hwf || lia).
  destruct (run_toks tab toks init) as [st'| | |]; cbn [bind] in *; try reflexivity; try contradiction.
  pose proof (parts_length (key ++ 61 :: s)) as PL.
  match goal with |- ps_loop ?n _ _ _ = _ => destruct n as [|f] eqn:En end.
  - exfalso. apply NF. reflexivity.
  - destruct (unknown_token tab key s f st' Hk Hl) as [U|U]; [exact U|]. rewrite U in NF. contradiction.
Qed.

(* ---------------------------------------------------------------- the generated tables *)
Lemma tables_ok : forall k, (k < nkinds)%nat -> table_ok k = true.
Proof.
  intros k H. unfold nkinds in H.
  destruct k as [|[|[|[|k]]]]; [vm_compute; reflexivity..|lia].
Qed.
Lemma tables_agree_all : forall k, (k < nkinds)%nat -> tables_agree k = true.
Proof.
  intros k H. unfold nkinds in H.
  destruct k as [|[|[|[|k]]]]; [vm_compute; reflexivity..|lia].
Qed.
Lemma empty_key_unknown : forall k, (k < nkinds)%nat -> lookup [] (mtab k) = None.
Proof.
  intros k H. unfold nkinds in H.
  destruct k as [|[|[|[|k]]]]; [vm_compute; reflexivity..|lia].
Qed.

Lemma simple_roundtrip_all : forall k v init, (k < nkinds)%nat ->
  shape v = kinds k -> shape init = kinds k -> plain_vals v -> ints_ok v ->
  exists text, format_simple k v = Some text /\ parse_simple k text init = Ok v.
Proof. intros k v init H. apply simple_roundtrip. apply tables_ok. exact H. Qed.

Lemma later_wins_text : forall k pre t post init r i,
  Forall tok_wf (pre ++ t :: post) ->
  parse_simple k (join32 (map tok_str (pre ++ t :: post))) init = Ok r ->
  lookup (tok_key t) (mtab k) = Some i ->
  (forall t', In t' post -> lookup (tok_key t') (mtab k) <> Some i) ->
  exists kd x, nth_error (shape init) i = Some kd /\ typed (zero_of kd) (tok_payload t) = Some x /\ nth_error r i = Some x.
Proof.
  intros k pre t post init r i Hwf H Hl Hn. unfold parse_simple in H.
  rewrite sequential in H; [|destruct pre; discriminate|exact Hwf].
  eapply later_wins; eassumption.
Qed.
