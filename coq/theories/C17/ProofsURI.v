(* C17 lemmas, part 4: the library's part of the URI round trip (FormatURI -> net/url -> ParseURI), with net/url's
   escaping abstracted to a pair esc/unesc with unesc (esc s) = s. *)
From Coq Require Import ZArith List Bool Lia.
Import ListNotations.
From V Require Import Base.Tree Gen.GenC17 C17.Model C17.Spec C17.Proofs.
Open Scope Z_scope.

Section URI.
  Variable esc unesc : str -> str.
  Hypothesis UE : forall s, unesc (esc s) = s.

  (* dsn.Info: host, port, user name, password, database - ALL texts, including the empty ones (an empty member is
     not written by FormatURI and the zero struct already holds ""), an empty user name with a non-empty password,
     and texts full of URI metacharacters (they only ever travel through esc/unesc). *)
  Lemma uri_roundtrip_info : forall h p u pw db,
    exists w, format_uri esc 0 [VS h; VS p; VS u; VS pw; VS db] = Some w /\
              parse_uri unesc 0 w (zero_struct 0) = Ok [VS h; VS p; VS u; VS pw; VS db].
  Proof.
    intros h p u pw db.
    destruct h as [|h0 h]; destruct p as [|p0 p]; destruct u as [|u0 u]; destruct pw as [|w0 pw]; destruct db as [|d0 db];
      (eexists; split; [lazy; reflexivity|]);
      unfold parse_uri, parse_uri_tab; cbn [w_user w_host w_port w_path w_query map fst snd];
      rewrite ?UE; lazy; reflexivity.
  Qed.
End URI.
