(* C17 lemmas, part 2: one key=value token survives the split / re-join / strip loop of ParseSimple, hence a
   space-joined list of tokens means sequential assignment. *)
From Coq Require Import ZArith List Bool Lia Arith.
Import ListNotations.
From V Require Import Base.Tree Gen.GenC17 C17.Model C17.Spec C17.Proofs.
Open Scope Z_scope.

(* ---------------------------------------------------------------- strings.Split on spaces *)
Lemma split_sp_nosp : forall a b, ~ In 32 a ->
  split_sp (a ++ b) = (a ++ fst (split_sp b), snd (split_sp b)).
Proof.
  induction a as [|c a IH]; intros b H.
  - cbn [app]. destruct (split_sp b) as [p ps]. reflexivity.
  - cbn [app split_sp]. rewrite IH by (intros X; apply H; right; exact X).
    destruct (c =? 32) eqn:E.
    + apply Z.eqb_eq in E. exfalso. apply H. left. exact E.
    + reflexivity.
Qed.

Lemma parts_cons : forall s, parts s = fst (split_sp s) :: snd (split_sp s).
Proof. intros s. unfold parts. destruct (split_sp s) as [p ps]. reflexivity. Qed.

Lemma parts_app_sp : forall a b, parts (a ++ 32 :: b) = parts a ++ parts b.
Proof.
  induction a as [|c a IH]; intros b.
  - cbn [app]. rewrite !parts_cons. cbn [split_sp]. destruct (split_sp b) as [p ps]. reflexivity.
  - specialize (IH b). rewrite !parts_cons in IH. rewrite !parts_cons. cbn [app split_sp].
    destruct (split_sp (a ++ 32 :: b)) as [p ps]. destruct (split_sp a) as [p' ps']. destruct (split_sp b) as [p2 ps2].
    cbn [fst snd app] in *. inversion IH as [[E1 E2]]. subst.
    destruct (c =? 32); reflexivity.
Qed.

Lemma parts_join32 : forall l, l <> [] -> parts (join32 l) = concat (map parts l).
Proof.
  induction l as [|t r IH]; intros H; [contradiction|].
  destruct r as [|t2 r2].
  - cbn [join32 map concat]. rewrite app_nil_r. reflexivity.
  - change (join32 (t :: t2 :: r2)) with (t ++ 32 :: join32 (t2 :: r2)).
    rewrite parts_app_sp. rewrite IH by discriminate. reflexivity.
Qed.

Lemma split_sp_fst_in : forall s c, In c (fst (split_sp s)) -> In c s.
Proof.
  induction s as [|x s IH]; intros c H.
  - exact H.
  - cbn [split_sp] in H. destruct (split_sp s) as [p ps]. destruct (x =? 32); cbn [fst] in *.
    + destruct H.
    + destruct H as [H|H]; [left; exact H|right; apply IH; exact H].
Qed.

(* ---------------------------------------------------------------- strings.Index / SplitN *)
Lemma find2_cons2 : forall a b x y t,
  find2 a b (x :: y :: t) = if (x =? a) && (y =? b) then Some O else option_map S (find2 a b (y :: t)).
Proof. reflexivity. Qed.

Lemma find2_none : forall a b s, ~ In b s -> find2 a b s = None.
Proof.
  intros a b s. induction s as [|x r IH]; intros H; [reflexivity|].
  destruct r as [|y t]; [reflexivity|].
  rewrite find2_cons2.
  assert (Hy : (y =? b) = false).
  { apply Z.eqb_neq. intros E. apply H. right. left. exact E. }
  rewrite Hy, andb_false_r. rewrite IH; [reflexivity|].
  intros X. apply H. right. exact X.
Qed.

Lemma find2_key : forall key a b r, ~ In a key -> find2 a b (key ++ a :: b :: r) = Some (length key).
Proof.
  induction key as [|x k IH]; intros a b r H.
  - cbn [app]. rewrite find2_cons2. rewrite !Z.eqb_refl. reflexivity.
  - assert (Hx : (x =? a) = false).
    { apply Z.eqb_neq. intros E. apply H. left. exact E. }
    assert (Hk : ~ In a k) by (intros X; apply H; right; exact X).
    specialize (IH a b r Hk).
    cbn [app]. destruct (k ++ a :: b :: r) as [|y t] eqn:E.
    + destruct k; discriminate.
    + rewrite find2_cons2. rewrite Hx. cbn [andb]. rewrite IH. reflexivity.
Qed.

Lemma split_eq_key : forall key r, ~ In 61 key -> split_eq (key ++ 61 :: r) = Some (key, r).
Proof.
  induction key as [|x k IH]; intros r H.
  - reflexivity.
  - cbn [app split_eq].
    assert (Hx : (x =? 61) = false).
    { apply Z.eqb_neq. intros E. apply H. left. exact E. }
    rewrite Hx. rewrite IH; [reflexivity|]. intros X. apply H. right. exact X.
Qed.

(* ---------------------------------------------------------------- key facts *)
Lemma key_ok_notin : forall key, key_ok key -> ~ In 32 key /\ ~ In 61 key /\ ~ In 34 key /\ ~ In 39 key.
Proof.
  intros key H. unfold key_ok in H. rewrite Forall_forall in H.
  repeat split; intros X; apply H in X; destruct X as [A [B [C D]]]; congruence.
Qed.

(* ---------------------------------------------------------------- the re-join loop on a quoted value *)
Lemma go_true : forall K pre start q, length K = (start + 2)%nat -> ~ In q pre ->
  (if (length (K ++ pre) <? start + 3)%nat then Ok true
   else bind (idx (K ++ pre) (length (K ++ pre) - 1)) (fun c => Ok (negb (c =? q)))) = Ok true.
Proof.
  intros K pre start q HK Hq.
  destruct (length (K ++ pre) <? start + 3)%nat eqn:E; [reflexivity|].
  apply Nat.ltb_ge in E.
  destruct pre as [|p0 pre'] using rev_ind.
  - rewrite app_nil_r in E. lia.
  - clear IHpre'. rewrite app_assoc. rewrite idx_last. cbn [bind].
    assert (Hx : (p0 =? q) = false).
    { apply Z.eqb_neq. intros X. apply Hq. apply in_or_app. right. left. exact X. }
    rewrite Hx. reflexivity.
Qed.

Lemma rejoin_quoted : forall q start K s pre rest fuel,
  q <> 32 -> length K = (start + 2)%nat -> ~ In q s -> ~ In q pre ->
  (length (snd (split_sp (s ++ [q]))) < fuel)%nat ->
  rejoin fuel q start (K ++ pre ++ fst (split_sp (s ++ [q]))) (snd (split_sp (s ++ [q])) ++ rest)
  = Ok (K ++ pre ++ s ++ [q], rest).
Proof.
  intros q start K s. induction s as [|c r IH]; intros pre rest fuel Hq HK Hs Hpre Hf.
  - cbn [app split_sp] in *.
    assert (E32 : (q =? 32) = false) by (apply Z.eqb_neq; exact Hq).
    rewrite E32 in *. cbn [fst snd app] in *.
    destruct fuel as [|f]; [lia|]. rewrite rejoin_S.
    assert (E : (length (K ++ pre ++ [q]) <? start + 3)%nat = false).
    { apply Nat.ltb_ge. rewrite !app_length. cbn [length]. lia. }
    rewrite E. rewrite app_assoc. rewrite idx_last. cbn [bind]. rewrite Z.eqb_refl. cbn [negb].
    rewrite <- app_assoc. reflexivity.
  - assert (Hc : c <> q) by (intros X; apply Hs; left; exact X).
    assert (Hr : ~ In q r) by (intros X; apply Hs; right; exact X).
    cbn [app split_sp] in *.
    destruct (split_sp (r ++ [q])) as [p' ps'] eqn:Esp.
    destruct (c =? 32) eqn:E32; cbn [fst snd] in *.
    + apply Z.eqb_eq in E32. subst c.
      destruct fuel as [|f]; [lia|]. rewrite rejoin_S.
      rewrite app_nil_r. rewrite (go_true K pre start q HK Hpre). cbn [bind].
      cbn [app length Nat.eqb idx nth_error bind].
      rewrite slice_ok by (cbn [length]; lia).
      cbn [skipn bind]. replace (S (length (ps' ++ rest)) - 1)%nat with (length (ps' ++ rest)) by lia.
      rewrite firstn_all.
      specialize (IH (pre ++ [32]) rest f Hq HK Hr).
      cbn [fst snd] in IH.
      replace (K ++ pre ++ 32 :: r ++ [q]) with (K ++ (pre ++ [32]) ++ r ++ [q])
        by (rewrite <- !app_assoc; reflexivity).
      replace ((K ++ pre) ++ 32 :: p') with (K ++ (pre ++ [32]) ++ p')
        by (rewrite <- !app_assoc; reflexivity).
      apply IH.
      * intros X. apply in_app_or in X. destruct X as [X|[X|[]]]; [exact (Hpre X)|]. apply Hq. symmetry. exact X.
      * cbn [length] in Hf. lia.
    + specialize (IH (pre ++ [c]) rest fuel Hq HK Hr).
      cbn [fst snd] in IH.
      replace (K ++ pre ++ c :: r ++ [q]) with (K ++ (pre ++ [c]) ++ r ++ [q])
        by (rewrite <- !app_assoc; reflexivity).
      replace (K ++ pre ++ c :: p') with (K ++ (pre ++ [c]) ++ p')
        by (rewrite <- !app_assoc; reflexivity).
      apply IH.
      * intros X. apply in_app_or in X. destruct X as [X|[X|[]]]; [exact (Hpre X)|]. apply Hc. exact X.
      * exact Hf.
Qed.

(* ---------------------------------------------------------------- quote stripping *)
Lemma strip1_hit : forall q s, strip1 q (q :: s ++ [q]) = Ok s.
Proof.
  intros q s. unfold strip1.
  assert (L : length (q :: s ++ [q]) = (length s + 2)%nat) by (cbn [length]; rewrite app_length; cbn [length]; lia).
  assert (E : (2 <=? length (q :: s ++ [q]))%nat = true) by (apply Nat.leb_le; lia).
  rewrite E. cbn [idx nth_error bind]. rewrite Z.eqb_refl.
  change (q :: s ++ [q]) with ((q :: s) ++ [q]). rewrite idx_last. cbn [bind]. rewrite Z.eqb_refl.
  rewrite slice_ok; try lia.
  - change ((q :: s) ++ [q]) with (q :: s ++ [q]). rewrite L. cbn [skipn].
    replace (length s + 2 - 1 - 1)%nat with (length s) by lia.
    rewrite firstn_app, firstn_all, Nat.sub_diag. cbn [firstn]. rewrite app_nil_r. reflexivity.
  - change ((q :: s) ++ [q]) with (q :: s ++ [q]). rewrite L. lia.
Qed.

Lemma strip1_miss : forall q v, (forall a r, v = a :: r -> a <> q) -> strip1 q v = Ok v.
Proof.
  intros q v H. unfold strip1. destruct v as [|a r]; [reflexivity|].
  destruct (2 <=? length (a :: r))%nat; [|reflexivity]. cbn [idx nth_error bind].
  assert (E : (a =? q) = false) by (apply Z.eqb_neq; apply (H a r); reflexivity).
  rewrite E. reflexivity.
Qed.

Lemma strip_quoted : forall q s, (q = 34 \/ q = 39) -> noquote s -> strip (q :: s ++ [q]) = Ok s.
Proof.
  intros q s Hq Hs. unfold strip. cbn [length Nat.eqb]. unfold quotations. cbn [fold_left bind].
  assert (Hm : forall q', (q' = 34 \/ q' = 39) -> strip1 q' s = Ok s).
  { intros q' Hq'. apply strip1_miss. intros a r E. subst s. unfold noquote in Hs.
    apply Forall_inv in Hs. destruct Hs as [A B]. destruct Hq'; subst q'; assumption. }
  destruct Hq as [Hq|Hq]; subst q.
  - rewrite (strip1_miss 39) by (intros a r E; inversion E; lia). cbn [bind]. apply strip1_hit.
  - rewrite strip1_hit. cbn [bind]. apply Hm. left. reflexivity.
Qed.

Lemma strip_bare : forall w, bare_ok w -> strip w = Ok w.
Proof.
  intros w Hw. unfold strip. destruct (length w =? 0)%nat; [reflexivity|].
  unfold quotations. cbn [fold_left bind].
  assert (Hm : forall q', (q' = 34 \/ q' = 39) -> strip1 q' w = Ok w).
  { intros q' Hq'. apply strip1_miss. intros a r E. subst w. unfold bare_ok in Hw.
    apply Forall_inv in Hw. destruct Hw as [_ [A B]]. destruct Hq'; subst q'; assumption. }
  rewrite (Hm 39) by (right; reflexivity). cbn [bind]. apply Hm. left. reflexivity.
Qed.

(* ---------------------------------------------------------------- one token through the loop *)
Lemma noquote_notin : forall s, noquote s -> ~ In 34 s /\ ~ In 39 s.
Proof.
  intros s H. unfold noquote in H. rewrite Forall_forall in H.
  split; intros X; apply H in X; destruct X as [A B]; congruence.
Qed.
Lemma bare_notin : forall s, bare_ok s -> ~ In 32 s /\ ~ In 34 s /\ ~ In 39 s.
Proof.
  intros s H. unfold bare_ok in H. rewrite Forall_forall in H.
  repeat split; intros X; apply H in X; destruct X as [A [B C]]; congruence.
Qed.

Lemma requote_quoted : forall key q s rest,
  key_ok key -> (q = 34 \/ q = 39) -> noquote s ->
  requote (S (length (snd (split_sp (s ++ [q])) ++ rest))) quotations
          (key ++ 61 :: q :: fst (split_sp (s ++ [q]))) (snd (split_sp (s ++ [q])) ++ rest)
  = Ok (key ++ 61 :: q :: s ++ [q], rest).
Proof.
  intros key q s rest Hk Hq Hs.
  destruct (key_ok_notin key Hk) as [K32 [K61 [K34 K39]]].
  destruct (noquote_notin s Hs) as [S34 S39].
  assert (R : rejoin (S (length (snd (split_sp (s ++ [q])) ++ rest))) q (length key)
                (key ++ 61 :: q :: fst (split_sp (s ++ [q]))) (snd (split_sp (s ++ [q])) ++ rest)
              = Ok (key ++ 61 :: q :: s ++ [q], rest)).
  { pose proof (rejoin_quoted q (length key) (key ++ [61; q]) s [] rest
                 (S (length (snd (split_sp (s ++ [q])) ++ rest)))) as R.
    cbn [app] in R. rewrite <- !app_assoc in R. cbn [app] in R. apply R.
    - destruct Hq; subst q; discriminate.
    - rewrite app_length. cbn [length]. lia.
    - destruct Hq; subst q; assumption.
    - intros [].
    - rewrite app_length. lia. }
  unfold quotations. cbn [requote].
  destruct Hq as [Hq|Hq]; subst q.
  - (* double quote: =' does not occur in the first part *)
    rewrite find2_none.
    + rewrite find2_key by exact K61. exact R.
    + intros X. apply in_app_or in X. destruct X as [X|X]; [exact (K39 X)|].
      destruct X as [X|[X|X]]; try discriminate.
      apply split_sp_fst_in in X. apply in_app_or in X. destruct X as [X|[X|[]]]; [exact (S39 X)|discriminate].
  - rewrite find2_key by exact K61. exact R.
Qed.

Lemma parts_quoted : forall key q s, key_ok key -> q <> 32 ->
  parts (key ++ 61 :: q :: s ++ [q]) =
  (key ++ 61 :: q :: fst (split_sp (s ++ [q]))) :: snd (split_sp (s ++ [q])).
Proof.
  intros key q s Hk Hq. destruct (key_ok_notin key Hk) as [K32 _].
  rewrite parts_cons.
  replace (key ++ 61 :: q :: s ++ [q]) with ((key ++ [61; q]) ++ (s ++ [q])) by (rewrite <- app_assoc; reflexivity).
  rewrite split_sp_nosp.
  - cbn [fst snd]. rewrite <- app_assoc. reflexivity.
  - intros X. apply in_app_or in X. destruct X as [X|[X|[X|[]]]]; [exact (K32 X)|discriminate|]. apply Hq. exact X.
Qed.

Lemma parts_bare : forall key w, key_ok key -> bare_ok w -> parts (key ++ 61 :: w) = [key ++ 61 :: w].
Proof.
  intros key w Hk Hw. destruct (key_ok_notin key Hk) as [K32 _]. destruct (bare_notin w Hw) as [W32 _].
  rewrite parts_cons.
  replace (key ++ 61 :: w) with ((key ++ 61 :: w) ++ []) by apply app_nil_r.
  rewrite split_sp_nosp.
  - cbn [split_sp fst snd]. reflexivity.
  - intros X. apply in_app_or in X. destruct X as [X|[X|X]]; [exact (K32 X)|discriminate|exact (W32 X)].
Qed.

Lemma token_step : forall t f tab rest st, tok_wf t ->
  ps_loop (S f) tab (parts (tok_str t) ++ rest) st =
  match lookup (tok_key t) tab with
  | None => Err
  | Some i => bind (set_value st i (tok_payload t)) (fun st' => ps_loop f tab rest st')
  end.
Proof.
  intros t f tab rest st Hwf. destruct t as [key q s|key w]; cbn [tok_wf tok_str tok_key tok_payload] in *.
  - destruct Hwf as [Hk [Hq Hs]].
    rewrite parts_quoted; [|exact Hk|destruct Hq; subst q; discriminate].
    rewrite ps_loop_S. cbn [app length Nat.eqb idx nth_error bind].
    rewrite slice_ok by (cbn [length]; lia).
    cbn [skipn bind].
    replace (S (length (snd (split_sp (s ++ [q])) ++ rest)) - 1)%nat
      with (length (snd (split_sp (s ++ [q])) ++ rest)) by lia.
    rewrite firstn_all.
    rewrite requote_quoted by assumption. cbn [bind fst snd].
    destruct (key_ok_notin key Hk) as [_ [K61 _]].
    unfold splitn2. rewrite split_eq_key by exact K61.
    cbn [length Nat.eqb negb idx nth_error bind].
    rewrite strip_quoted by assumption. cbn [bind]. reflexivity.
  - destruct Hwf as [Hk Hw].
    rewrite parts_bare by assumption.
    rewrite ps_loop_S. cbn [app length Nat.eqb idx nth_error bind].
    rewrite slice_ok by (cbn [length]; lia).
    cbn [skipn bind]. replace (S (length rest) - 1)%nat with (length rest) by lia. rewrite firstn_all.
    destruct (key_ok_notin key Hk) as [_ [K61 [K34 K39]]]. destruct (bare_notin w Hw) as [_ [W34 W39]].
    unfold quotations. cbn [requote].
    rewrite !find2_none.
    + cbn [bind fst snd]. unfold splitn2. rewrite split_eq_key by exact K61.
      cbn [length Nat.eqb negb idx nth_error bind].
      rewrite strip_bare by exact Hw. cbn [bind]. reflexivity.
    + intros X. apply in_app_or in X. destruct X as [X|[X|X]]; [exact (K34 X)|discriminate|exact (W34 X)].
    + intros X. apply in_app_or in X. destruct X as [X|[X|X]]; [exact (K39 X)|discriminate|exact (W39 X)].
Qed.

Lemma tokens_loop : forall tab toks fuel st, Forall tok_wf toks ->
  (length (concat (map (fun t => parts (tok_str t)) toks)) < fuel)%nat ->
  ps_loop fuel tab (concat (map (fun t => parts (tok_str t)) toks)) st = run_toks tab toks st.
Proof.
  intros tab toks. induction toks as [|t r IH]; intros fuel st Hwf Hf.
  - destruct fuel as [|f]; [lia|]. reflexivity.
  - destruct fuel as [|f]; [lia|].
    cbn [map concat run_toks]. rewrite token_step by (exact (Forall_inv Hwf)).
    destruct (lookup (tok_key t) tab) as [i|]; [|reflexivity].
    destruct (set_value st i (tok_payload t)) as [st'| | |]; cbn [bind]; try reflexivity.
    apply IH; [exact (Forall_inv_tail Hwf)|].
    cbn [map concat] in Hf. rewrite app_length in Hf. pose proof (parts_length (tok_str t)). lia.
Qed.

(* a space-joined list of well-formed tokens means: assign in order *)
Lemma sequential : forall tab toks init, toks <> [] -> Forall tok_wf toks ->
  parse_simple_tab tab (join32 (map tok_str toks)) init = run_toks tab toks init.
Proof.
  intros tab toks init Hne Hwf. unfold parse_simple_tab.
  rewrite parts_join32 by (destruct toks; [contradiction|discriminate]).
  rewrite map_map. apply tokens_loop; [exact Hwf|lia].
Qed.

(* the same with more text behind the tokens *)
Lemma tokens_loop_tail : forall tab toks fuel st tail, Forall tok_wf toks ->
  (length (concat (map (fun t => parts (tok_str t)) toks) ++ tail) < fuel)%nat ->
  ps_loop fuel tab (concat (map (fun t => parts (tok_str t)) toks) ++ tail) st =
  bind (run_toks tab toks st) (fun st' => ps_loop (fuel - length toks) tab tail st').
Proof.
  intros tab toks. induction toks as [|t r IH]; intros fuel st tail Hwf Hf.
  - cbn [map concat app run_toks bind length]. rewrite Nat.sub_0_r. reflexivity.
  - destruct fuel as [|f]; [lia|].
    cbn [map concat run_toks]. rewrite <- app_assoc. rewrite token_step by (exact (Forall_inv Hwf)).
    destruct (lookup (tok_key t) tab) as [i|]; [|reflexivity].
    destruct (set_value st i (tok_payload t)) as [st'| | |]; cbn [bind]; try reflexivity.
    cbn [length]. replace (S f - S (length r))%nat with (f - length r)%nat by lia.
    apply IH; [exact (Forall_inv_tail Hwf)|].
    cbn [map concat] in Hf. rewrite <- app_assoc in Hf. rewrite app_length in Hf.
    pose proof (parts_length (tok_str t)). lia.
Qed.

Lemma parts_join32_snoc : forall l u, parts (join32 (l ++ [u])) = concat (map parts l) ++ parts u.
Proof.
  intros l u. rewrite parts_join32 by (destruct l; discriminate).
  rewrite map_app, concat_app. cbn [map concat]. rewrite app_nil_r. reflexivity.
Qed.
