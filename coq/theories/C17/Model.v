(* C17: executable model of dsn.ParseSimple / FormatSimple / ParseURI / FormatURI / setValue
   (dsn/parse.go, dsn/format.go, dsn/util.go as of the "fix:" commits 1e03d7a, 3d5741d, a412744).
   Strings are lists of code points (list Z).  ParseSimple works on the UTF-8 bytes of the string, but it only
   searches for and compares with the ASCII characters space, '=', single and double quote; on valid UTF-8 these never
   occur inside a multi-byte sequence, so splitting / indexing by code points is the same computation.
   Go's index and slice expressions are modelled by [idx] / [slice], which yield the outcome Panic outside their
   bounds, exactly where the Go code has an index or slice expression; loops run on explicit fuel (outcome Fuel).
   The tag -> member tables come from Gen/GenC17.v (dsn.TagToField executed on the real structs).
   NO proofs in this file. *)
From Coq Require Import ZArith List Bool Decimal.
From Coq Require String Ascii.
Import String.StringSyntax.
Local Open Scope string_scope.
Import ListNotations.
From V Require Import Base.Tree Gen.GenC17.
Open Scope Z_scope.

Definition str := list Z.

(* string literal -> code points (ASCII literals only) *)
Fixpoint zs (s : String.string) : str :=
  match s with
  | String.EmptyString => []
  | String.String a r => Z.of_N (Ascii.N_of_ascii a) :: zs r
  end.

(* literals are evaluated at definition time, so that no Coq string survives into the extracted code *)
Notation L s := (ltac:(let v := eval vm_compute in (zs s) in exact v)) (only parsing).

Fixpoint str_eqb (a b : str) : bool :=
  match a, b with
  | [], [] => true
  | x :: a', y :: b' => (x =? y) && str_eqb a' b'
  | _, _ => false
  end.

(* ------------------------------------------------------------------ outcomes *)
Inductive out (A : Type) : Type :=
| Ok (a : A)      (* returned normally *)
| Err             (* returned an error *)
| Panic           (* run-time panic: index / slice out of range *)
| Fuel.           (* model artefact: loop fuel exhausted (proved impossible) *)
Arguments Ok {A} a.
Arguments Err {A}.
Arguments Panic {A}.
Arguments Fuel {A}.

Definition bind {A B} (x : out A) (f : A -> out B) : out B :=
  match x with Ok a => f a | Err => Err | Panic => Panic | Fuel => Fuel end.

(* l[i] *)
Definition idx {A} (l : list A) (i : nat) : out A :=
  match nth_error l i with Some a => Ok a | None => Panic end.
(* l[lo:hi] *)
Definition slice {A} (l : list A) (lo hi : nat) : out (list A) :=
  if (lo <=? hi)%nat && (hi <=? length l)%nat then Ok (firstn (hi - lo) (skipn lo l)) else Panic.

(* ------------------------------------------------------------------ values of struct members *)
Inductive value := VS (s : str) | VB (b : bool) | VI (z : Z).

Definition kind_of (v : value) : nat := match v with VS _ => 0%nat | VB _ => 1%nat | VI _ => 2%nat end.
Definition zero_of (k : nat) : value := match k with 0%nat => VS [] | 1%nat => VB false | _ => VI 0 end.

Fixpoint upd {A} (i : nat) (x : A) (l : list A) {struct l} : list A :=
  match l, i with
  | [], _ => []
  | _ :: r, O => x :: r
  | a :: r, S j => a :: upd j x r
  end.

Fixpoint lookup {A} (key : str) (tab : list (str * A)) : option A :=
  match tab with
  | [] => None
  | (k, v) :: r => if str_eqb key k then Some v else lookup key r
  end.

Definition kinds (k : nat) : list nat := nth k kinds_tab [].
Definition mtab (k : nat) : list (str * nat) := nth k multiref_tab [].
Definition jtab (k : nat) : list (str * nat) := nth k json_tab [].
Definition zero_struct (k : nat) : list value := map zero_of (kinds k).

(* ------------------------------------------------------------------ strconv.ParseBool / ParseInt(s, 10, 64) *)
(* ParseBool accepts exactly: 1 t T TRUE true True / 0 f F FALSE false False *)
Definition parse_bool (s : str) : option bool :=
  if str_eqb s (L "1") || str_eqb s (L "t") || str_eqb s (L "T") ||
     str_eqb s (L "TRUE") || str_eqb s (L "true") || str_eqb s (L "True") then Some true
  else if str_eqb s (L "0") || str_eqb s (L "f") || str_eqb s (L "F") ||
     str_eqb s (L "FALSE") || str_eqb s (L "false") || str_eqb s (L "False") then Some false
  else None.

Definition digit (c : Z) (u : uint) : option uint :=
  match c with
  | 48 => Some (D0 u) | 49 => Some (D1 u) | 50 => Some (D2 u) | 51 => Some (D3 u) | 52 => Some (D4 u)
  | 53 => Some (D5 u) | 54 => Some (D6 u) | 55 => Some (D7 u) | 56 => Some (D8 u) | 57 => Some (D9 u)
  | _ => None
  end.
Fixpoint to_uint (s : str) : option uint :=
  match s with
  | [] => Some Nil
  | c :: r => match to_uint r with Some u => digit c u | None => None end
  end.
(* base 10 (no underscores, no prefixes), optional sign, at least one digit, result must fit int64;
   the member kind is Go's int = 64 bit on the platforms the harness runs on *)
Definition parse_digits (s : str) : option Z :=
  match s with
  | [] => None
  | _ :: _ => match to_uint s with Some u => Some (Z.of_uint u) | None => None end
  end.
Definition sign_split (s : str) : option Z :=
  match s with
  | 45 :: d => option_map Z.opp (parse_digits d)
  | 43 :: d => parse_digits d
  | _ => parse_digits s
  end.
Definition parse_int (s : str) : option Z :=
  match sign_split s with
  | Some z => if (- 2 ^ 63 <=? z) && (z <? 2 ^ 63) then Some z else None
  | None => None
  end.

Fixpoint uint_chars (u : uint) : str :=
  match u with
  | Nil => []
  | D0 r => 48 :: uint_chars r | D1 r => 49 :: uint_chars r | D2 r => 50 :: uint_chars r
  | D3 r => 51 :: uint_chars r | D4 r => 52 :: uint_chars r | D5 r => 53 :: uint_chars r
  | D6 r => 54 :: uint_chars r | D7 r => 55 :: uint_chars r | D8 r => 56 :: uint_chars r
  | D9 r => 57 :: uint_chars r
  end.
(* strconv.Itoa / fmt %v of an int *)
Definition itoa (z : Z) : str :=
  match Z.to_int z with
  | Decimal.Pos u => uint_chars u
  | Decimal.Neg u => 45 :: uint_chars u
  end.

(* dsn/util.go setValue on member i of the struct: the member's kind decides how the text is read *)
Definition typed (old : value) (text : str) : option value :=
  match old with
  | VS _ => Some (VS text)
  | VB _ => option_map VB (parse_bool text)
  | VI _ => option_map VI (parse_int text)
  end.
Definition set_value (st : list value) (i : nat) (text : str) : out (list value) :=
  match nth_error st i with
  | Some old => match typed old text with Some x => Ok (upd i x st) | None => Err end
  | None => Err
  end.

(* ------------------------------------------------------------------ ParseSimple *)
(* strings.Split(s, " "): first part and the remaining parts (always at least one part) *)
Fixpoint split_sp (s : str) : str * list str :=
  match s with
  | [] => ([], [])
  | c :: r => let (p, ps) := split_sp r in if c =? 32 then ([], p :: ps) else (c :: p, ps)
  end.
Definition parts (s : str) : list str := let (p, ps) := split_sp s in p :: ps.

(* strings.Index(s, [a;b]) *)
Fixpoint find2 (a b : Z) (s : str) : option nat :=
  match s with
  | [] => None
  | x :: r =>
      match r with
      | [] => None
      | y :: _ => if (x =? a) && (y =? b) then Some O else option_map S (find2 a b r)
      end
  end.

(* for len(part) < start+3 || part[len(part)-1] != quot { if len(dsnS) == 0 { return err };
     part = part + " " + dsnS[0]; dsnS = dsnS[1:] } *)
Fixpoint rejoin (fuel : nat) (q : Z) (start : nat) (part : str) (dsnS : list str) : out (str * list str) :=
  match fuel with
  | O => Fuel
  | S f =>
      bind (if (length part <? start + 3)%nat then Ok true
            else bind (idx part (length part - 1)) (fun c => Ok (negb (c =? q))))
        (fun go =>
           if go then
             if (length dsnS =? 0)%nat then Err
             else bind (idx dsnS 0) (fun nx =>
                  bind (slice dsnS 1 (length dsnS)) (fun rest =>
                  rejoin f q start (part ++ 32 :: nx) rest))
           else Ok (part, dsnS))
  end.

Definition quotations : list Z := [39; 34].

(* for _, quot := range quotations { start := Index(part, "="+quot); if start < 0 { continue }; <rejoin>; break } *)
Fixpoint requote (fuel : nat) (qs : list Z) (part : str) (dsnS : list str) : out (str * list str) :=
  match qs with
  | [] => Ok (part, dsnS)
  | q :: qs' =>
      match find2 61 q part with
      | None => requote fuel qs' part dsnS
      | Some start => rejoin fuel q start part dsnS
      end
  end.

(* strings.SplitN(part, "=", 2) *)
Fixpoint split_eq (s : str) : option (str * str) :=
  match s with
  | [] => None
  | c :: r =>
      if c =? 61 then Some ([], r)
      else match split_eq r with Some (k, v) => Some (c :: k, v) | None => None end
  end.
Definition splitn2 (s : str) : list str :=
  match split_eq s with Some (k, v) => [k; v] | None => [s] end.

(* if len(value) >= 2 && value[0] == quot && value[len(value)-1] == quot { value = value[1 : len(value)-1] } *)
Definition strip1 (q : Z) (value : str) : out str :=
  if (2 <=? length value)%nat then
    bind (idx value 0) (fun a =>
      if a =? q then
        bind (idx value (length value - 1)) (fun b =>
          if b =? q then slice value 1 (length value - 1) else Ok value)
      else Ok value)
  else Ok value.
Definition strip (value : str) : out str :=
  if (length value =? 0)%nat then Ok value
  else fold_left (fun acc q => bind acc (strip1 q)) quotations (Ok value).

Fixpoint ps_loop (fuel : nat) (tab : list (str * nat)) (dsnS : list str) (st : list value) : out (list value) :=
  match fuel with
  | O => Fuel
  | S f =>
      if (length dsnS =? 0)%nat then Ok st
      else
        bind (idx dsnS 0) (fun part =>
        bind (slice dsnS 1 (length dsnS)) (fun rest =>
        bind (requote (S (length rest)) quotations part rest) (fun pr =>
        let partS := splitn2 (fst pr) in
        if negb (length partS =? 2)%nat then Err
        else
          bind (idx partS 0) (fun key =>
          bind (idx partS 1) (fun value =>
          bind (strip value) (fun value' =>
          match lookup key tab with
          | None => Err
          | Some i => bind (set_value st i value') (fun st' => ps_loop f tab (snd pr) st')
          end))))))
  end.

Definition parse_simple_tab (tab : list (str * nat)) (s : str) (init : list value) : out (list value) :=
  let ps := parts s in ps_loop (S (length ps)) tab ps init.
(* dsn.ParseSimple(s, target) where target is a struct of kind k holding [init] *)
Definition parse_simple (k : nat) (s : str) (init : list value) : out (list value) :=
  parse_simple_tab (mtab k) s init.

(* ------------------------------------------------------------------ FormatSimple *)
Fixpoint in_rtree (c : Z) (t : rtree) : bool :=
  match t with
  | RLeaf => false
  | RNode l lo hi r => if c <? lo then in_rtree c l else if hi <? c then in_rtree c r else true
  end.
Definition is_print (c : Z) : bool := in_rtree c print_tree.        (* strconv.IsPrint, tabulated *)
(* the documented alphabet of the simple form: printable, no quotation mark of either kind, no backslash.
   On such text fmt's %q is the identity between two double quotes (strconv.Quote escapes only the double
   quote, the backslash and what IsPrint rejects); the single quote is excluded because ParseSimple treats
   =' as an opening quotation mark. *)
Definition plain (c : Z) : bool := is_print c && negb (c =? 34) && negb (c =? 39) && negb (c =? 92).

(* the text of a member as FormatSimple prints it; None = outside the documented alphabet (not modelled) *)
Definition render (v : value) : option str :=
  match v with
  | VS s => if forallb plain s then Some (34 :: s ++ [34]) else None
  | VB b => Some (if b then L "true" else L "false")
  | VI z => Some (itoa z)
  end.

Fixpoint str_leb (a b : str) : bool :=
  match a, b with
  | [], _ => true
  | _ :: _, [] => false
  | x :: a', y :: b' => if x <? y then true else if y <? x then false else str_leb a' b'
  end.
Fixpoint insert_by {A} (le : A -> A -> bool) (x : A) (l : list A) : list A :=
  match l with
  | [] => [x]
  | y :: r => if le x y then x :: l else y :: insert_by le x r
  end.
Definition sort_by {A} (le : A -> A -> bool) (l : list A) : list A := fold_right (insert_by le) [] l.

Fixpoint join32 (l : list str) : str :=
  match l with
  | [] => []
  | [t] => t
  | t :: r => t ++ 32 :: join32 r
  end.

Fixpoint tokens (tab : list (str * nat)) (v : list value) : option (list str) :=
  match tab with
  | [] => Some []
  | (key, i) :: r =>
      match nth_error v i, tokens r v with
      | Some x, Some ts => match render x with Some t => Some ((key ++ 61 :: t) :: ts) | None => None end
      | _, _ => None
      end
  end.
(* sort.Strings + strings.Join(ret, " ") *)
Definition format_simple_tab (tab : list (str * nat)) (v : list value) : option str :=
  match tokens tab v with Some ts => Some (join32 (sort_by str_leb ts)) | None => None end.
Definition format_simple (k : nat) (v : list value) : option str := format_simple_tab (jtab k) v.

(* ------------------------------------------------------------------ URI form *)
(* What net/url carries between FormatURI and ParseURI: the components on the wire. *)
Record wurl := {
  w_scheme : str;
  w_user : option (str * str);       (* escaped user name and password; None = no userinfo *)
  w_host : str;                      (* Hostname() *)
  w_port : str;                      (* Port() *)
  w_path : str;                      (* Path (decoded; FormatURI only ever writes "/" or nothing) *)
  w_query : list (str * str)         (* escaped key=value pairs in wire order *)
}.

(* the text of a member as FormatURI takes it *)
Definition text_of (v : value) : str :=
  match v with VS s => s | VB b => if b then L "true" else L "false" | VI z => itoa z end.

Definition key_in (key : str) (l : list str) : bool := existsb (str_eqb key) l.

(* accumulator of FormatURI's loop *)
Record facc := { f_scheme : str; f_user : str; f_pass : str; f_host : str; f_port : str; f_props : list (str * str) }.
Definition facc0 : facc := {| f_scheme := []; f_user := []; f_pass := []; f_host := []; f_port := []; f_props := [] |}.

Definition fstep (a : facc) (key : str) (v : str) : facc :=
  match v with
  | [] => a                                                   (* if v == "" { continue } *)
  | _ :: _ =>
    if key_in key [L "scheme"] then
      {| f_scheme := v; f_user := f_user a; f_pass := f_pass a; f_host := f_host a; f_port := f_port a; f_props := f_props a |}
    else if key_in key [L "user"; L "username"] then
      {| f_scheme := f_scheme a; f_user := v; f_pass := f_pass a; f_host := f_host a; f_port := f_port a; f_props := f_props a |}
    else if key_in key [L "password"; L "pass"; L "passwd"] then
      {| f_scheme := f_scheme a; f_user := f_user a; f_pass := v; f_host := f_host a; f_port := f_port a; f_props := f_props a |}
    else if key_in key [L "host"; L "hostname"] then
      {| f_scheme := f_scheme a; f_user := f_user a; f_pass := f_pass a; f_host := v; f_port := f_port a; f_props := f_props a |}
    else if key_in key [L "port"] then
      {| f_scheme := f_scheme a; f_user := f_user a; f_pass := f_pass a; f_host := f_host a; f_port := v; f_props := f_props a |}
    else
      let pk := if key_in key [L "userstorekey"; L "key"] then L "KEY"
                else if key_in key [L "database"; L "db"] then L "database" else key in
      {| f_scheme := f_scheme a; f_user := f_user a; f_pass := f_pass a; f_host := f_host a; f_port := f_port a;
         f_props := f_props a ++ [(pk, v)] |}
  end.

Fixpoint floop (tab : list (str * nat)) (v : list value) (a : facc) : option facc :=
  match tab with
  | [] => Some a
  | (key, i) :: r =>
      match nth_error v i with
      | Some x => floop r v (fstep a key (text_of x))
      | None => None
      end
  end.

Definition pair_leb (a b : str * str) : bool := str_leb (fst a) (fst b).

Section URI.
  (* net/url's escaping of userinfo / query components and its inverse; the only fact used: unesc (esc s) = s *)
  Variable esc unesc : str -> str.

  (* url.Values.Encode: sorted by key (stable), key and value escaped *)
  Definition encode (props : list (str * str)) : list (str * str) :=
    map (fun kv => (esc (fst kv), esc (snd kv))) (sort_by pair_leb props).

  Definition format_uri_tab (tab : list (str * nat)) (v : list value) : option wurl :=
    match floop tab v facc0 with
    | None => None
    | Some a =>
        if existsb (fun kv => str_eqb (fst kv) (L "KEY")) (f_props a)
        then (* fmt.Sprintf("%s://?%s", scheme, connectProp.Encode()) *)
          Some {| w_scheme := f_scheme a; w_user := None; w_host := []; w_port := []; w_path := [];
                  w_query := encode (f_props a) |}
        else (* User = UserPassword(user, passwd); Host = host:port; url.String() + "/?" + Encode() *)
          Some {| w_scheme := f_scheme a; w_user := Some (esc (f_user a), esc (f_pass a));
                  w_host := f_host a; w_port := f_port a; w_path := [47];
                  w_query := encode (f_props a) |}
    end.

  (* url.Query(): key -> values in order of appearance; ParseURI takes values[len(values)-1] *)
  Fixpoint last_value (key : str) (q : list (str * str)) (cur : str) : str :=
    match q with
    | [] => cur
    | (k, v) :: r => last_value key r (if str_eqb k key then v else cur)
    end.
  Fixpoint distinct_keys (q : list (str * str)) (seen : list str) : list str :=
    match q with
    | [] => []
    | (k, _) :: r => if existsb (str_eqb k) seen then distinct_keys r seen else k :: distinct_keys r (k :: seen)
    end.

  (* ttf["x"].SetString(s): reflect panics unless the tag exists and the member is a string *)
  Definition set_string (tab : list (str * nat)) (st : list value) (tag : str) (s : str) : out (list value) :=
    match lookup tag tab with
    | Some i => match nth_error st i with Some (VS _) => Ok (upd i (VS s) st) | _ => Panic end
    | None => Panic
    end.

  (* for key, values := range url.Query(): the iteration order of the Go map is unspecified; the model visits the
     keys in order of first appearance.  Every failure is Err, so the class never depends on the order; the
     member values depend on it only if two different keys of the query are aliases of one member. *)
  Fixpoint qloop (tab : list (str * nat)) (q : list (str * str)) (keys : list str) (st : list value) : out (list value) :=
    match keys with
    | [] => Ok st
    | key :: r =>
        match lookup key tab with
        | None => Err
        | Some i => bind (set_value st i (last_value key q [])) (fun st' => qloop tab q r st')
        end
    end.

  Definition trim_slash (p : str) : str := match p with 47 :: r => r | _ => p end.   (* strings.TrimPrefix(path, "/") *)

  Definition parse_uri_tab (tab : list (str * nat)) (u : wurl) (init : list value) : out (list value) :=
    bind (set_string tab init (L "hostname") (w_host u)) (fun st1 =>
    bind (set_string tab st1 (L "port") (w_port u)) (fun st2 =>
    bind (match w_user u with
          | None => Ok st2
          | Some (un, pw) => bind (set_string tab st2 (L "username") (unesc un)) (fun st3 =>
                                   set_string tab st3 (L "password") (unesc pw))
          end) (fun st4 =>
    bind (match lookup (L "database") tab with
          | Some _ => set_string tab st4 (L "database") (trim_slash (w_path u))
          | None => Ok st4
          end) (fun st5 =>
    let q := map (fun kv => (unesc (fst kv), unesc (snd kv))) (w_query u) in
    qloop tab q (distinct_keys q []) st5)))).

  Definition format_uri (k : nat) (v : list value) : option wurl := format_uri_tab (jtab k) v.
  Definition parse_uri (k : nat) (u : wurl) (init : list value) : out (list value) := parse_uri_tab (mtab k) u init.
End URI.
