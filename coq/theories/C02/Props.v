(* C02 — the received package stream does not depend on fragmentation.  Property theorems only.
   Model: Rx/Model.v (WritePacket / tryParsePackage / handleSpecialPackage over the package registry of
   Pkg/All.v) and Rx/Transport.v (PacketHeader.ReadFrom / Packet.ReadFrom / Conn.ReadFrom); both are compared
   with the implementation on every run (events per packet; packages obtained through the real reader goroutine). *)
From Coq Require Import ZArith List Bool.
Import ListNotations.
From V Require Import Base.Tree Base.Bytes Base.Parser Rx.Model Rx.Generic Rx.Proofs Rx.Semantics Rx.Transport Rx.TransportProofs Rx.PrefixProofs Gen.GenPkg.
Open Scope Z_scope.

(* Packet level.  For EVERY message (any bytes for which the one-packet run raises no parse error), every state of
   the channel at a message boundary, any number of registered hooks, and EVERY way of cutting the bytes into
   non-empty packets (EOM on the last): the same events — delivered packages with their field values, hook calls,
   the synthetic final DONE — in the same order, each exactly once, and the same final state as with ONE packet. *)
Theorem C02_fragmentation_independent : forall need nenv chunks st,
  chunks <> [] -> Forall (fun c => c <> []) chunks -> eom st = false ->
  clean (rx_step need nenv) (lastp st) (buf st ++ concat chunks) = true ->
  flat_run need nenv st (mk_packets chunks) = flat_run need nenv st (mk_packets [concat chunks]).
Proof. exact rx_fragmentation_independent. Qed.

(* Nothing is invented: a message that parses into its packages delivers exactly their events, plus the one
   synthetic final DONE when the last delivered package is not a final DONE. *)
Theorem C02_nothing_invented : forall need nenv l b ess l2, parses need nenv l b ess l2 ->
  run (rx_step need nenv) l b true =
  (concat ess ++ (if last_is_final_done l2 then [] else [EvSynthDone]),
   {| buf := []; eom := false; lastp := forget_done l2 |}).
Proof. exact parses_run. Qed.

(* Transport level.  For EVERY byte stream and EVERY partition of it into non-empty Read results (including reads
   that split a packet header or body, down to single bytes) the reader obtains exactly the packets of the stream. *)
Theorem C02_transport_independent : forall fuel segs, nonempty_segs segs ->
  read_all fuel segs = parse_stream fuel (concat segs).
Proof. exact transport_independent. Qed.
Theorem C02_transport_partitions_agree : forall segs1 segs2, nonempty_segs segs1 -> nonempty_segs segs2 ->
  concat segs1 = concat segs2 -> read_script segs1 = read_script segs2.
Proof. exact transport_partitions_agree. Qed.

(* Empty packets.  A header-only packet at ANY place of ANY packet sequence (between responses or inside one, e.g.
   directly before a row) is reported by its own marker and leaves the events of all other packets and the state of
   the channel exactly as they are without it. *)
Theorem C02_header_only_packet_transparent : forall need nenv ps1 p ps2 st, p_len p = c_hdr_size ->
  rx_run need nenv st (ps1 ++ p :: ps2) =
  let '(e1, s1) := rx_run need nenv st ps1 in let '(e2, s2) := rx_run need nenv s1 ps2 in
  (e1 ++ [EvHeaderOnly (p_hdr p)] :: e2, s2).
Proof. exact rx_run_header_only. Qed.
Theorem C02_header_only_packet_state : forall need nenv ps1 p ps2 st, p_len p = c_hdr_size ->
  snd (rx_run need nenv st (ps1 ++ p :: ps2)) = snd (rx_run need nenv st (ps1 ++ ps2)).
Proof. exact rx_run_header_only_state. Qed.

(* non-vacuity: a two-packet DONE(COUNT|MORE) + DONE(0) message cut inside the first package *)
Example C02_example :
  flat_run 1 1 rx_init (mk_packets [[253; 17; 0]; [0; 0; 1; 0; 0; 0; 253; 0; 0; 0; 0; 0; 0; 0; 0]])
  = flat_run 1 1 rx_init (mk_packets [[253; 17; 0; 0; 0; 1; 0; 0; 0; 253; 0; 0; 0; 0; 0; 0; 0; 0]]).
Proof. vm_compute. reflexivity. Qed.

Print Assumptions C02_fragmentation_independent.
Print Assumptions C02_nothing_invented.
Print Assumptions C02_transport_independent.
Print Assumptions C02_header_only_packet_transparent.
Print Assumptions C02_header_only_packet_state.
Print Assumptions C02_transport_partitions_agree.
