From Coq Require Import Extraction ExtrOcamlBasic ZArith.
From V Require Import Base.Tree Login.Spec.
Definition run := login_run.
Definition spec := login_spec.
Extraction "model.ml" run spec.
