From Coq Require Import Extraction ExtrOcamlBasic ZArith.
From V Require Import Base.Tree Pkg.All.
Definition run := pkg_run.
Definition spec := pkg_spec.
Extraction "model.ml" run spec.
