From Coq Require Import Extraction ExtrOcamlBasic.
From V Require Import Base.Tree Pkg.All.
Extraction "model.ml" run spec.
