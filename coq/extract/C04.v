From Coq Require Import Extraction ExtrOcamlBasic ZArith.
From V Require Import Base.Tree C04.Spec C04.PkgLeg.
(* fn 1,2,3,4,9: value level (C04/Spec.v); fn 20,21,22: package leg (C04/PkgLeg.v) *)
Definition run := run_all.
Definition spec := spec_all.
Extraction "model.ml" run spec.
