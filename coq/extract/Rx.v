From Coq Require Import Extraction ExtrOcamlBasic.
From V Require Import Base.Tree Rx.Spec.
Extraction "model.ml" run spec.
