From Coq Require Import Extraction ExtrOcamlBasic ZArith.
From V Require Import Base.Tree Rx.Spec.
Definition run := rx_fn_run.
Definition spec := rx_fn_spec.
Extraction "model.ml" run spec.
