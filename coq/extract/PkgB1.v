From Coq Require Import Extraction ExtrOcamlBasic.
From V Require Import Base.Tree Pkg.ScratchB1.
Extraction "model.ml" run spec.
