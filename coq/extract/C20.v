From Coq Require Import Extraction ExtrOcamlBasic.
From V Require Import Base.Tree C20.Model.
Extraction "model.ml" run spec.
