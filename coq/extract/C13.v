From Coq Require Import Extraction ExtrOcamlBasic.
From V Require Import Base.Tree C13.Spec.
Extraction "model.ml" run spec.
