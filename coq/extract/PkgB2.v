From Coq Require Import Extraction ExtrOcamlBasic.
From V Require Import Base.Tree Pkg.ScratchB2.
Extraction "model.ml" run spec.
