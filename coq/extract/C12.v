From Coq Require Import Extraction ExtrOcamlBasic.
From V Require Import Base.Tree C12.Spec.
Extraction "model.ml" run spec.
