#!/bin/sh
# usage: dbg.sh theories/X/Y.v LINE  -- shows the proof state after LINE (scratch copy under build/dbg)
f=$1; n=$2
head -n $n $f > /verif/build/dbg/Dbg.v
printf '\nShow.\n' >> /verif/build/dbg/Dbg.v
cd /verif/coq && timeout 300 coqc -R theories V /verif/build/dbg/Dbg.v 2>&1 | tail -${3:-60}
