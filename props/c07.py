ID = "C07"
GO_CMD = "pkgs"
GEN = ["Gen/GenPkg.v"]
GROUPS = "core,b1,b2"      # generator groups whose models are integrated in Pkg/All.v
DRIVE_ARGS = ["-prop", "C07", "-groups", GROUPS]
MODEL_VO = ["theories/Rx/Spec.vo"]
PROOF_VO = ["theories/C07/Props.vo"]
PROPS_V = "theories/C07/Props.v"
EXTRACT = "extract/Rx.v"
DEPS = ["Pkg", "Rx", "C01", "C15"]
DESIGN_REF = "DESIGN.md section 5, C07"
TECHNIQUE = "Coq proof that every package decoder is 'streamable' (by closure of the parser combinators) + exhaustive-prefix correspondence with every ReadFrom of the implementation"
RULE = ("for every valid encoding generated for the package layer (all registered kinds; formats over all data types; params/rows over all decodable data types "
        "and all valid data lengths, with and without status byte; optional parts; boundary string lengths) EVERY proper prefix (length 0..len-1) is fed to the implementation's "
        "LookupPackage+LastPkg+ReadFrom on a bounded queue; the list of result classes is compared with the model's and must be all 'not enough bytes'. "
        "One case = one encoding with all its prefixes; non-trivial = encoding longer than 2 bytes; distinct by (token, bytes, context). Channel level: multi-round histories and many-cut / fixed-size packetisations of whole responses are fed to the real Channel.WritePacket; no parse error may surface for a merely fragmented response and the events must equal the model's (whose independence of the fragmentation is C02's theorem). Channel level: also with Channel.Reset() between the packets and with empty packets anywhere.")
TRUSTED = ["Coq 8.16.1 kernel + vm_compute", "hand-written decoders in coq/theories/Pkg (tied by this correspondence and by C06/C10's)",
           "data-type tables re-tabulated from the code (Gen/GenPkg.v)", "harness/pk (reference encoders), tds/verif_hooks.go, ocaml/driver.ml, extraction (ExtrOcamlBasic)"]
ASSUMPTIONS = ["BLOB (serialised Java object) field data is not modelled (never generated)",
               "ENVCHANGE: the uint16 byte counter of the reader is assumed not to wrap (needs > 64 KiB in one package)"]
LEVEL_TEXT = ("Theorems C07_truncated_is_not_enough_bytes / C07_error_only_when_decided / C07_neb_prefix_closed hold for EVERY registered package kind, context and byte string: "
              "they follow from `streamable`, which is proved once per parser combinator (take, bind, repeat, counted, loops) and therefore for every decoder built from them. "
              "Whether each Go read site really reports its short read as ErrNotEnoughBytes is decided by the exhaustive-prefix correspondence with the implementation.")
LEVEL_NOTE = "Trusted: Coq kernel; the hand-written decoders (validated against the implementation on every prefix of every generated encoding); Go harness; extraction + OCaml driver."
def nontrivial(c):
    return len(c[1]) > 16

from props._multi import drive_multi
def drive(check, exe_go, race_exe, tier, seed, path, env):
    return drive_multi(check, [("pkgs", DRIVE_ARGS), ("rx", ["-prop", ID])], tier, path, env)
