"""shared settings of the login checks (C08, C09)"""
GO_CMD = "login"
GEN = ["Gen/GenPkg.v", "Gen/GenLogin.v"]
MODEL_VO = ["theories/Login/Spec.vo"]
EXTRACT = "extract/Login.v"
DEPS = ["Pkg", "Rx", "C01", "C15", "Login"]
TRUSTED = ["Coq 8.16.1 kernel + vm_compute",
           "hand-written model coq/theories/Login/Model.v of tds/login.go over the rx model (Rx/*.v), the package decoders (Pkg/*.v), the login record (Pkg/LoginRec.v) and the tx model (C01/C15), tied to the code by this correspondence",
           "constants, default capability masks and parameter formats re-tabulated from the code on every run (Gen/GenLogin.v, Gen/GenPkg.v)",
           "harness/pk/lg (scripted peer, reply script generator, RSA private keys, PEM oracle via encoding/pem + crypto/x509 + crypto/rsa of the Go standard library), tds/verif_hooks.go, ocaml/driver.ml, extraction (ExtrOcamlBasic only)"]
ASSUMPTIONS_COMMON = [
    "RSA-OAEP, PEM and PKCS#1 parsing are not modelled: [keycap pem] (how many plaintext bytes the key takes, negative = unusable) and [enc] are parameters of the model; the harness supplies keycap from the Go standard library and blanks ciphertexts before comparing",
    "goroutine scheduling and timers are not modelled: the harness ends the caller's context once nothing can arrive any more (peer idle, reader parked, queues empty during 100 consecutive 4 ms monitor ticks) and classifies the error; a call that has not returned after 30 s is reported as class -2",
    "packet size announcements are placed first in their reply by the generator (one arriving while Login is already past it would race with Login's next send)"]
