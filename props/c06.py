ID = "C06"
GO_CMD = "pkgs"
GEN = ["Gen/GenPkg.v"]
GROUPS = "core,b1,b2"
DRIVE_ARGS = ["-prop", "C06", "-groups", GROUPS]
MODEL_VO = ["theories/Pkg/All.vo"]
PROOF_VO = ["theories/C06/Props.vo"]
PROPS_V = "theories/C06/Props.v"
EXTRACT = "extract/Pkg.v"
DEPS = ["Pkg"]
DESIGN_REF = "DESIGN.md section 5, C06"
TECHNIQUE = "Coq round-trip proofs per package codec (model of every WriteTo/ReadFrom) + correspondence with the implementation in both directions + independent Go reference codecs from the TDS 5.0 layouts"
RULE = ("per package kind (all tokens of LookupPackage, narrow and wide variants, CURCLOSE/OPTIONCMD/KEY/CONTROL, the login record): all combinations of optional parts, string lengths "
        "{0,1,max-1,max} of every length prefix and random, integer fields at their boundaries, formats over all data types, params/rows over all decodable data types and valid lengths, "
        "capability masks with every single bit and random subsets, login configurations with every field length 0..31 (0..256 for the 255-byte slot) and all Encrypt modes. "
        "fn 1: the implementation's WriteTo bytes vs the model's encoder, and the independent reference decoder's verdict on them; fn 2: reference-encoded (server) or implementation-encoded "
        "(client) bytes through LookupPackage+LastPkg+ReadFrom: result class, bytes consumed (= all) and field tree vs the model and vs the fields the encoder was given. "
        "Non-trivial = at least 4 bytes of encoding; distinct by (fn, token, input).")
TRUSTED = ["Coq 8.16.1 kernel + vm_compute", "hand-written codec models in coq/theories/Pkg (tied by this correspondence)",
           "token and data-type tables re-tabulated from the code (Gen/GenPkg.v)",
           "harness/pk: independent Go reference encoders/decoders written from the TDS 5.0 layouts (their verdict is part of the case line)",
           "tds/verif_hooks.go, verif_b1.go, verif_b2.go; ocaml/driver.ml; extraction (ExtrOcamlBasic)"]
ASSUMPTIONS = ["values inside PARAMS/ROW are compared as raw bytes (re-encoded with the library's own value encoder): value semantics are C04/C05",
               "BLOB formats/data are excluded (the library's BLOB support is a stub: length byte miscounted by 2, last chunk never read); CONTROL is a stub (writes and reads nothing)",
               "capability blocks are compared sorted by type (the writer ranges over a Go map)",
               "EED: one trailing newline of the message is trimmed by the reader (documented)"]
LEVEL_TEXT = ("Round-trip theorems C06_<kind> for every package kind the library both writes and reads (dec (enc x ++ r) = x with exactly the written bytes consumed, for ALL well-formed "
              "field values), length-field theorems (the written length equals what follows), the login record theorems (independent strict decoder recovers every field; constant "
              "length 568; oversized fields rejected, never truncated or shifted), the capability mask laws (bit position formula, set round trip) and C06_lookup_total (every token of the "
              "code's LookupPackage table is either tokenless or has a modelled decoder, re-proved against the regenerated table). The models are compared with the implementation in both "
              "directions on ~30k generated packages per quick run; wire-layout conformance is decided by independent reference codecs in the harness.")
LEVEL_NOTE = ("Trusted: Coq kernel; the hand-written codec models (validated by correspondence); the Go reference codecs (the independent statement of the TDS 5.0 layouts lives in Go, "
              "not in Coq); harness + hooks; extraction + driver.")
def nontrivial(c):
    return len(c[1]) > 20
