import json, os, re

ID = "C12"
GO_CMD = "c12"
RACE = True
GEN = ["Gen/GenPkg.v", "Gen/GenC01.v", "Gen/GenC12.v"]
MODEL_VO = ["theories/C12/Spec.vo"]
PROOF_VO = ["theories/C12/Props.vo"]
PROPS_V = "theories/C12/Props.v"
EXTRACT = "extract/C12.v"
DEPS = ["Pkg", "Rx", "C01", "C15", "C13"]
DESIGN_REF = "DESIGN.md section 5, C12"
DRIVE_TIMEOUT = 3000
TECHNIQUE = ("Coq proofs over ALL interleavings: frame property of routing by induction over the operation list (any interleaving of the packets of any "
             "channels and of closes of other channels), invariant of id allocation + registration under the map lock over every schedule of the atomic steps "
             "(induction over the step list), demultiplexing of ANY interleaving of the channels' transport writes on top of the C01 theorems; "
             "+ correspondence of the models with the real Conn/Channel on an in-memory transport: sequential interleavings (incl. sends / resets between the packets of a package) predicted exactly, recorded "
             "histories of 1..16 goroutines (GOMAXPROCS 1/4/16) judged per channel by the extracted predicates; + the same under a -race build; "
             "+ a system of n closers of ONE channel (counting invariant over every schedule, shared with C13) with scenarios that put all closers into the window between "
             "the first closed check and the exclusive lock (a transport that holds the teardown packet)")
RULE = ("fn 4 setup: one logical channel is created against a peer that answers the SETUP packet with a header-only packet of every message type 0..31 "
        "(+ sampled 32..255), a PROTACK for the channel / for an unknown channel, a normal package, a malformed package, or nothing (then the connection context is "
        "cancelled); packets for channel 0 in front. Output: result, id, every transport write. "
        "fn 1 routing: 1..16 channels created with the real protocol, part of them re-registered under ids whose two bytes differ (255, 256, 257, 0x1234, 0x3412, "
        "0x8000, 0xff00, 65534, 65535, random); per channel 1..3 generated responses (all server package types of the rx grammar, ENVCHANGE incl. PACKSIZE, EED, result "
        "sets) cut into packets at random (cut probability 1/4, 1/12, 1/40), header-only packets in between; the packets of all channels are merged in random "
        "order; packets for ids that are not registered (neighbours, byte swaps, bit flips of registered ids) are inserted; every fourth case closes logical channels in "
        "the middle of their stream. After EVERY packet: what each channel received (hook calls, packages, errors) and the ids the connection reported invalid. "
        "fn 2 sending: 1..16 channels (ids as above, packet counters started at 1 / 250..255 / random), packet sizes 9, 16, 64, 512, 600, 2048, random 9..700; 2..40 "
        "operations from one goroutine: a message of 1..3 packages in 1..3 chunks (lengths around multiples of the body size) on a random channel, Close of a logical "
        "channel, sends on closed channels, the server announcing another packet size (valid and invalid) on some channel. Output: every transport write in order. "
        "fn 3 concurrent: g = 1, 2, 3, 4, 8, 16 (+ random 1..16) goroutines x GOMAXPROCS 1/4/16 start together, each calls NewChannel, sends 0..4 messages and reads every "
        "response to its final DONE with NextPackage, then closes its channel (channel 0 by logout); random Gosched. The peer multiplexes: it answers each message with a "
        "generated response cut into packets, feeds the pending packets of all channels in random interleaving, re-announces the packet size in a third of the responses, "
        "sends up to 5 packets for channel ids that do not exist. The recorded history (ids returned, per channel: messages sent, packets the peer sent, packages "
        "delivered, the client's writes carrying that id, connection errors seen) is the input of the predicates; in front of these, creation storms (16 goroutines released "
        "together into NewChannel, nothing else). "
        "fn 6 sends between packets: 1..16 channels (0 and logical ones, ids as above, packet counters as in fn 2, packet sizes 512, 64, 16, 600) on one connection with the real reader "
        "goroutine; per channel 1..2 generated responses (no PACKSIZE) cut into packets with cut probability 1/3, 1/6, 1/15 (cuts inside packages), merged in random order; BETWEEN the packets - each "
        "fed only after the reader has routed the previous one and is parked in Read - the client performs a whole message (QueuePackage ... SendPackage, or QueuePackage ... + SendRemainingPackets) "
        "or Channel.Reset: after a packet that leaves its channel's package incomplete with probability 2/3 (3 of 4 on that very channel, else on another one), after other packets 1/6; in front 27 fixed "
        "cases (1..3 channels, DONE(count=1000+id) cut after 4 bytes on every channel, first halves, one send / flush / Reset on each channel in turn, second halves in the opposite order). "
        "Output per operation: packet -> as fn 1 (what each channel received, invalid ids), send / reset -> result code + transport writes (250 cases quick, the 27 fixed ones again under -race; thorough 2500 + 250). "
        "fn 5 concurrent closers: 2..3 goroutines call Close on the SAME logical channel, in half of the cases Conn.Close is one of them (started first / last); 0..2 other logical "
        "channels on the connection, 0 or 2 packages left in the queue; the transport holds every Write of a CLOSE-type packet for that id until every closer is parked in such a write or has "
        "returned (whoever gets as far as the teardown is in the window between the first closed check and the exclusive lock while all others run), then lets the packets go; mode 0: all closers are "
        "released into their calls together, mode 1: one after the other; GOMAXPROCS 1/4/16. Output: closers parked in the teardown write at release, sorted result codes, teardown packets seen and their "
        "numbers, id unregistered, calls on the channel report closed, the other channels still deliver, Conn.Close returns, reader ended (60 cases quick, all 60 again under -race; thorough x10). Quick: 800 routing + 400 sending cases, 242 concurrent histories + 132 under -race, 60 + 60 concurrent-close cases; thorough: 8000 + 4000, 4840 + 1320. A seed reproduces the generator choices, not the schedule. Non-trivial = input longer than 60 characters; distinct by (fn, input).")
TRUSTED = ["Coq 8.16.1 kernel + vm_compute (no native_compute)",
           "hand-written models coq/theories/C12/Model.v (routing, allocation steps, multiplexed sending, setup), coq/theories/C13/Closers.v (n closers of one channel) over Rx/Model.v (receive path of one channel) and "
           "C01/Model.v + C15/Model.v (send path, packet queue), tied to the code by this correspondence and by those of C01/C02/C03/C11/C15",
           "constants re-tabulated from the code on every run (Gen/GenC12.v, Gen/GenC01.v, Gen/GenPkg.v)",
           "harness/cmd/c12 (in-memory transport, scripted / multiplexing peer, history recorder), harness/pk/core (response generator, renderers), tds/verif_hooks.go "
           "(VerifNewConn, VerifSetChannelId, VerifSetCurPacketNr, VerifSetPacketSize, VerifQueueLens, VerifNextErr), ocaml/driver.ml, extraction with ExtrOcamlBasic only, "
           "the Go race detector"]
ASSUMPTIONS = ["sync.RWMutex gives mutual exclusion (a thread that does not hold tdsChannelsLock does not move inside the critical section: built into the step function); "
               "atomic.AddUint32 and the map operations are single steps; the reader's lookups under the read lock do not change the state and are omitted",
               "one transport Write per packet is atomic (net.Conn / tls.Conn serialise concurrent writes); a channel is used by ONE goroutine at a time (the library's design: "
               "sender state is only protected by a read lock) - several channels are used concurrently",
               "a Gallina model cannot exhibit data races or real schedules: 'without data races' is observed only - the concurrent histories (132 quick / 1320 thorough) and a tenth of the sequential families run "
               "again under the Go race detector, a DATA RACE report is a violation; not provoked: Close / Conn.Close of a channel while another goroutine sends on the SAME channel",
               "concurrent closers of one channel (model C13/Closers.v): each closer's RLock / closed check / RUnlock is one step, the compare-and-swap of `closing` is one atomic step, "
               "no goroutine holds the channel's read lock for long (that is C13's subject); Conn.Close takes part through its call of Channel.Close (that it may return ErrChannelClosed for a channel "
               "whose teardown another goroutine is still performing is the intended behaviour of fix 650fc05); concurrent Close of channel 0 (two logouts) is not provoked. Before 650fc05 every closer "
               "wrote the teardown with no lock held (race detector reports on CurrentHeaderType / curPacketNr, now and then two CLOSE packets with the same number): found by this family, fixed",
               "the packet size is connection state; in the concurrent histories the server only re-announces the size in force (the value senders load concurrently never "
               "changes, so the recorded writes are schedule-independent); that a new size is used by later messages of every channel is checked sequentially (fn 2)",
               "packets for unknown ids are only sent once every NewChannel has been acknowledged: NewChannel waits in NextPackage and would take a connection error "
               "meant for 'whoever asks next' as its own failure (behaviour of the code, mirrored by the model: new_channel_wait [AConnError] = NcError)",
               "NewChannel accepts any header-only packet whose message type has the PROTACK bits (type & 11 == 11, e.g. NORMAL = 15) as acknowledgement; the property only "
               "demands success on PROTACK, the model mirrors the mask",
               "channel ids are not reused after Close: at most 65536 NewChannel calls per connection succeed (C12_ids_distinct holds for every number of calls; later calls fail)"]
LEVEL_TEXT = ("Machine-checked: C12_routing - for EVERY interleaving of received packets of any channels (registered or not) and closes of other channels, the events a channel "
              "sees packet by packet and its receive state equal those of the one-channel receive path (rx_run, the subject of C02/C03/C11) on the subsequence addressed to it; "
              "C12_routing_ignores_sends / C12_routing_with_sends - in EVERY history that interleaves received packets and closes with whole messages and Channel.Reset on any channels (also on a channel "
              "between two packets of a package addressed to it) the routing results and receive states equal those of the history with the sends erased, hence those of the one-channel receive path; "
              "C12_sends_ignore_routing - the writes and send states do not depend on the packets received in between; "
              "C12_unknown_channel / C12_closed_channel_unknown - a packet for an id not in the map: one connection error naming the id, no state change; "
              "C12_ids_distinct - in EVERY schedule of the steps of NewChannel / Close (lock, read counter, atomic add, lookup, insert, delete, unlock by any number of threads) "
              "all ids ever returned are pairwise distinct and in 0..65535, C12_id_fresh_at_registration, C12_lock_excludes; counter-model C12_ids_unlocked_refuted (the unlocked "
              "code hands one id to two creators); C12_tx_numbering - for ANY interleaving of the transport writes of channels with distinct ids, selecting by the id in the packet "
              "HEADER recovers each channel's own writes, whose k-th packet carries number k mod 256, first the header-only SETUP packet (via C01_history: C12_channel_numbering); "
              "C12_setup_ack - NewChannel writes exactly the SETUP packet, succeeds on a PROTACK header-only answer, fails on other answers, waits while nothing arrives; "
              "C12_concurrent_close - in EVERY schedule of n+1 calls of Channel.Close on one channel nobody panics, at most one teardown packet is written, the id is deleted at most once, somebody can "
              "always move, and once all have returned exactly one performed the teardown (one teardown packet) and the n others report ErrChannelClosed (counter-models without the compare-and-swap / "
              "without the re-check under the exclusive lock: C12_concurrent_close_unguarded_refuted). "
              "PARTIAL for 'without data races' and real schedules: observed with the race detector and GOMAXPROCS 1/4/16, not proved.")
LEVEL_NOTE = ("Level: proof of the routing / allocation / numbering / handshake logic over all interleavings of the modelled steps + correspondence (sequential families predicted "
              "exactly by the model, concurrent histories judged per channel) + race-detector runs as supporting observation. Trusted: Coq kernel, the hand-written models, "
              "harness + verif hooks, extraction + OCaml driver. No axioms.")


def nontrivial(c):
    return len(c[1]) > 60


def drive(chk, exe_go, race_exe, tier, seed, casefile, env):
    """normal build, then the -race build (reduced budget); a DATA RACE report is a violation of its own"""
    extra = {"notes": [], "violation_lines": [], "coverage": {}}
    rc, o = chk.sh([exe_go, "-prop", "C12", "-tier", tier, "-out", casefile], env=env, timeout=DRIVE_TIMEOUT)
    if rc != 0:
        return False, o, extra
    out = o
    if race_exe:
        renv = dict(env)
        renv["GORACE"] = "exitcode=66 halt_on_error=0"
        rfile = casefile + ".race"
        rc2, o2 = chk.sh([race_exe, "-prop", "C12", "-tier", tier, "-out", rfile], env=renv, timeout=DRIVE_TIMEOUT)
        races = len(re.findall(r"WARNING: DATA RACE", o2))
        nlines = 0
        if os.path.exists(rfile):
            with open(casefile, "a") as f, open(rfile) as g:
                for line in g:
                    f.write(line)
                    nlines += 1
            os.remove(rfile)
        extra["coverage"]["race_detector"] = dict(cases=nlines, exit_status=rc2, data_races_reported=races)
        extra["notes"].append("race-detector run: %d cases, exit status %d, DATA RACE reports %d" % (nlines, rc2, races))
        out += o2[-4000:]
        if races or rc2 == 66:
            m = re.search(r"WARNING: DATA RACE(?:.*\n){1,60}", o2)
            path = os.path.join(chk.ROOT, "replays", "C12-race.json")
            os.makedirs(os.path.dirname(path), exist_ok=True)
            json.dump(dict(property="C12", kind="data-race", seed=seed, tier=tier, reports=races, exit_status=rc2,
                           first_report=(m.group(0) if m else o2[-3000:]),
                           how_to_replay="python3 check.py C12 --tier %s --seed %d" % (tier, seed)), open(path, "w"), indent=1)
            chk.log("  race detector reported %d data race(s) while channels were created / used / closed concurrently" % races)
            extra["violation_lines"].append("VIOLATION property=C12 replay=%s data-race-reported" % path)
        elif rc2 != 0:
            return False, "race build of the harness failed (exit %d):\n%s" % (rc2, o2[-3000:]), extra
    return True, out, extra
