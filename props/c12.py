import json, os, re

ID = "C12"
GO_CMD = "c12"
RACE = True
GEN = ["Gen/GenPkg.v", "Gen/GenC01.v", "Gen/GenC12.v"]
MODEL_VO = ["theories/C12/Spec.vo"]
PROOF_VO = ["theories/C12/Props.vo"]
PROPS_V = "theories/C12/Props.v"
EXTRACT = "extract/C12.v"
DEPS = ["Pkg", "Rx", "C01", "C15"]
DESIGN_REF = "DESIGN.md section 5, C12"
DRIVE_TIMEOUT = 3000
TECHNIQUE = "placeholder"
RULE = "placeholder"
TRUSTED = ["placeholder"]
ASSUMPTIONS = ["placeholder"]
LEVEL_TEXT = "placeholder"
LEVEL_NOTE = "placeholder"


def nontrivial(c):
    return len(c[1]) > 60


def drive(chk, exe_go, race_exe, tier, seed, casefile, env):
    """normal build, then the -race build (reduced budget); a DATA RACE report is a violation of its own"""
    extra = {"notes": [], "violation_lines": [], "coverage": {}}
    rc, o = chk.sh([exe_go, "-prop", "C12", "-tier", tier, "-out", casefile], env=env, timeout=DRIVE_TIMEOUT)
    if rc != 0:
        return False, o, extra
    out = o
    if race_exe:
        renv = dict(env)
        renv["GORACE"] = "exitcode=66 halt_on_error=0"
        rfile = casefile + ".race"
        rc2, o2 = chk.sh([race_exe, "-prop", "C12", "-tier", tier, "-out", rfile], env=renv, timeout=DRIVE_TIMEOUT)
        races = len(re.findall(r"WARNING: DATA RACE", o2))
        nlines = 0
        if os.path.exists(rfile):
            with open(casefile, "a") as f, open(rfile) as g:
                for line in g:
                    f.write(line)
                    nlines += 1
            os.remove(rfile)
        extra["coverage"]["race_detector"] = dict(cases=nlines, exit_status=rc2, data_races_reported=races)
        extra["notes"].append("race-detector run: %d cases, exit status %d, DATA RACE reports %d" % (nlines, rc2, races))
        out += o2[-4000:]
        if races or rc2 == 66:
            m = re.search(r"WARNING: DATA RACE(?:.*\n){1,60}", o2)
            path = os.path.join(chk.ROOT, "replays", "C12-race.json")
            os.makedirs(os.path.dirname(path), exist_ok=True)
            json.dump(dict(property="C12", kind="data-race", seed=seed, tier=tier, reports=races, exit_status=rc2,
                           first_report=(m.group(0) if m else o2[-3000:]),
                           how_to_replay="python3 check.py C12 --tier %s --seed %d" % (tier, seed)), open(path, "w"), indent=1)
            chk.log("  race detector reported %d data race(s) while channels were created / used / closed concurrently" % races)
            extra["violation_lines"].append("VIOLATION property=C12 replay=%s data-race-reported" % path)
        elif rc2 != 0:
            return False, "race build of the harness failed (exit %d):\n%s" % (rc2, o2[-3000:]), extra
    return True, out, extra
