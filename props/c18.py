import json, os, re

ID = "C18"
GO_CMD = "c18"
RACE = True
MODEL_VO = ["theories/C18/Spec.vo"]
PROOF_VO = ["theories/C18/Props.vo"]
PROPS_V = "theories/C18/Props.v"
EXTRACT = "extract/C18.v"
DESIGN_REF = "DESIGN.md section 5, C18"
TECHNIQUE = ("Coq invariant proof over ALL interleavings of the modelled atomic steps (Get/mint, build name, release, GC drop; induction over the "
             "step list) + replay of recorded concurrent histories of the Go code in the extracted model (every observed Acquire must be an "
             "enabled step) + independent history monitor (set of held ids) + runs under the race detector")
RULE = ("fn 1: histories recorded from 1..64 goroutines (8 fixed sizes + random sizes) x GOMAXPROCS 1/4/16 x formats \"%d\", \"stmt%d\", \"x\" "
        "(plus \"\", \"x%\", \"%d%%\", \"a%db%dc\", \"%%\", \"100%%_%d_%d\", \"name %d\" occasionally): 2..6 rounds, each starting with a burst of "
        "simultaneous unstamped Acquires (optionally after two forced GCs = empty sync.Pool), then random Acquire / pool.Release / Name.Release / "
        "immediate double release / release of a stale handle long after / Release(nil) / Gosched / runtime.GC per goroutine; ~3200 events per history "
        "(quick, ~216 histories) or ~900 (thorough, ~10000 histories); events stamped by one atomic clock (Acquire after return, Release before the call); "
        "the same generator runs again in a -race build (quick 45 concurrent histories, thorough 864, plus the single-goroutine ones) whose exit status and DATA RACE reports are observables. "
        "fn 2: single-goroutine histories: 15 fixed scripts (recycle, double release then two acquires, stale release after re-acquire, release nil, GC) "
        "x 10 formats + random scripts of 5..300 operations, replayed strictly (a new id is pooled or exactly counter+1). "
        "fn 3: fmt.Sprintf(format, id) for the 10 formats x boundary and random uint64 ids. "
        "Format-length family (classes sprintflen / seqlen / conclen; the property quantifies over all formats, also those that render to texts longer "
        "than a one-byte length prefix can carry): literal prefixes of 0, 1, 200, every length 245..260, 300, 1000 and 70000 bytes followed by %d, plus "
        "10 shapes whose one-digit text is exactly 255 bytes (%d in the middle / first / twice = %!d(MISSING), no verb = %!(EXTRA uint64=N), %%%d, %d%%, "
        "trailing % = %!(NOVERB), 127 and 255 two-byte code points + %d); only literal text, %d and %% are used because that is what the model renders as fmt does. "
        "Each format: fn 3 on 12 boundary ids; fn 2 scripts hold 12 / release all / hold 12 again (recycled ids), the same with two forced GCs in between "
        "(fresh ids 13..24), 12 x (acquire, release, GC, GC) = one holder at a time but ids 1..13, and for the lengths around 255 hold 120 / release / GC / hold 12 "
        "(three-digit ids); fn 1 histories with 4 goroutines x burst 4 x 2 rounds with GCs (16 names held at once, ids up to ~40) and, around 255 and for "
        "0/200/300, 32 goroutines x burst 4 (128 names held at once, half of the histories keep them until the final read-back); the 70000-byte format "
        "with 12 names held at once (sequential and 4 goroutines x burst 3).  A subset runs in the -race build.  Thorough adds 12 more lengths "
        "(2..65536), 1100 names held at once around 255, random scripts and 2 repetitions with random goroutine counts. "
        "Concurrent histories depend on the scheduler, so a seed reproduces the generator choices, not the interleaving; the recorded history in the "
        "case file / replay file is the concrete input of the monitor. Non-trivial = at least 3 events; distinct by (fn, input).")
TRUSTED = ["Coq 8.16.1 kernel + vm_compute (no native_compute)",
           "hand-written model coq/theories/C18/Model.v of namepool/pool.go + name.go (tied by the replay of recorded histories)",
           "harness/cmd/c18 (event log, atomic clock, reflect read of the unexported id pointer to see a cleared Name), ocaml/driver.ml, "
           "extraction with ExtrOcamlBasic only, the Go race detector"]
ASSUMPTIONS = ["sync.Pool (Get/Put) and sync/atomic.AddUint64 are linearizable: each is ONE atomic step of the model; a Gallina model cannot show "
               "real data races or weak-memory effects - those are only observed: runs under the Go race detector with GOMAXPROCS 1/4/16",
               "sync.Pool.Get may return any pooled item or call New; the garbage collector (and Put in race builds) may drop pooled items: modelled as "
               "nondeterministic choice / SDrop",
               "a Name object is used by one goroutine at a time (the struct is not synchronised): Release(h) = guard; Put; clear is one step for the handle h; "
               "Names are only released to the pool they came from",
               "fewer than 2^64 ids are minted (atomic.AddUint64 wraps to 0 after 2^64 mints: stated as hypothesis `mints ls < two64`, the wrap itself is in the model)",
               "fmt.Sprintf is modelled for formats of literal text, %d and %% (incl. %!d(MISSING), %!(NOVERB), %!(EXTRA uint64=N)); compared with fmt on every run (fn 3), also for texts of 1..70020 bytes; other verbs (%x, %05d, %v, ...) are NOT modelled (rendered as an invalid code point) and not generated: for them only C18_unique_texts_any_format applies, under the hypothesis that the rendering is injective in the id",
               "the stamped order (Acquire after return, Release before call) shrinks every holding interval, so the monitor never raises a false alarm; "
               "a real overlap shorter than the stamping delay can go unobserved in one run"]
LEVEL_TEXT = ("Machine-checked theorems over ALL histories of the modelled steps, for any number of threads: the invariant (pooled, in-flight and held ids "
              "pairwise distinct, all in 1..counter, never 0) holds initially and is preserved by every step, hence in every reachable state "
              "(C18_invariant_reachable); no two held names share an id or a text, text = format applied to id (C18_unique_holders, C18_text_injective: every format of literal text, %d, %% "
              "of any length; C18_unique_texts_any_format: any rendering whatsoever that is injective on 1..2^64-1); "
              "release makes the id available and clears the name (C18_release); double release / release of nil / of a cleared name are no-ops "
              "(C18_release_idempotent, C18_release_nil); a replayed history that the monitor accepts ends in an invariant state (C18_replay_sound). "
              "Counter-models show the guard and the clearing are what the proof rests on (C18_noguard_refuted, C18_noclear_refuted, C18_shared_name_refuted, C18_wrap_refuted).")
LEVEL_NOTE = ("Level: proof over all schedules of the modelled steps + observed runs under the race detector. Partial with respect to sync.Pool / sync/atomic "
              "themselves (assumed linearizable) and data races (race detector only). Trusted: Coq kernel, the hand-written model (validated by replaying "
              "~700k recorded events per quick run), Go harness, extraction and OCaml driver. No axioms.")
DRIVE_TIMEOUT = 3000


def nontrivial(c):
    return c[0] == "3" or c[1].count("(") > 4


def drive(chk, exe_go, race_exe, tier, seed, casefile, env):
    """normal build, then the -race build (reduced budget); the race detector's verdict is an observable of its own"""
    extra = {"notes": [], "violation_lines": [], "coverage": {}}
    rc, o = chk.sh([exe_go, "-tier", tier, "-out", casefile], env=env, timeout=DRIVE_TIMEOUT)
    if rc != 0:
        return False, o, extra
    out = o
    if race_exe:
        renv = dict(env)
        renv["GORACE"] = "exitcode=66 halt_on_error=0"
        rfile = casefile + ".race"
        rc2, o2 = chk.sh([race_exe, "-tier", tier, "-out", rfile], env=renv, timeout=DRIVE_TIMEOUT)
        races = len(re.findall(r"WARNING: DATA RACE", o2))
        nlines = 0
        if os.path.exists(rfile):
            with open(casefile, "a") as f, open(rfile) as g:
                for line in g:
                    f.write(line)
                    nlines += 1
            os.remove(rfile)
        extra["coverage"]["race_detector"] = dict(histories=nlines, exit_status=rc2, data_races_reported=races)
        extra["notes"].append("race-detector run: %d histories, exit status %d, DATA RACE reports %d" % (nlines, rc2, races))
        out += o2[-4000:]
        if races or rc2 == 66:
            m = re.search(r"WARNING: DATA RACE(?:.*\n){1,40}", o2)
            path = os.path.join(chk.ROOT, "replays", "C18-race.json")
            os.makedirs(os.path.dirname(path), exist_ok=True)
            json.dump(dict(property="C18", kind="data-race", seed=seed, tier=tier, reports=races, exit_status=rc2,
                           first_report=(m.group(0) if m else o2[-3000:]),
                           how_to_replay="python3 check.py C18 --tier %s --seed %d" % (tier, seed)), open(path, "w"), indent=1)
            chk.log("  race detector reported %d data race(s) in namepool under concurrent Acquire/Release" % races)
            extra["violation_lines"].append("VIOLATION property=C18 replay=%s data-race-reported" % path)
        elif rc2 != 0:
            return False, "race build of the harness failed (exit %d):\n%s" % (rc2, o2[-3000:]), extra
    return True, out, extra
