"""helper: a check whose cases come from several harness commands (case files are concatenated)"""
import os

def drive_multi(check, cmds, tier, path, env):
    """cmds: list of (go_cmd_name, extra_args)"""
    outs, parts = [], []
    for i, (cmd, args) in enumerate(cmds):
        ok, o, exe = check.build_go(cmd)
        if not ok:
            return False, "go build %s failed:\n%s" % (cmd, o), {}
        part = "%s.part%d" % (path, i)
        rc, o = check.sh([exe, "-tier", tier, "-out", part] + args, env=env, timeout=3000)
        outs.append(o)
        if rc != 0:
            return False, "%s failed:\n%s" % (cmd, o[-3000:]), {}
        parts.append(part)
    with open(path, "w") as f:
        for p in parts:
            with open(p) as g:
                for line in g:
                    f.write(line)
            os.remove(p)
    return True, "\n".join(outs), {}
