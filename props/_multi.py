"""helper: a check whose cases come from several harness commands (case files are concatenated)"""
import os

def drive_multi(check, cmds, tier, path, env):
    """cmds: list of (go_cmd_name, extra_args)"""
    outs, parts, problems = [], [], []
    for i, (cmd, args) in enumerate(cmds):
        ok, o, exe = check.build_go(cmd)
        if not ok:
            return False, "go build %s failed:\n%s" % (cmd, o), {}
        part = "%s.part%d" % (path, i)
        rc, o = check.sh([exe, "-tier", tier, "-out", part] + args, env=env, timeout=3000)
        outs.append(o)
        if rc != 0:
            # a harness that died (e.g. a panic on a goroutine of the implementation) does not hide what the
            # other harnesses observe: its complete lines are kept and the failure is reported as a problem
            problems.append(["harness-run", "harness run failed:\n%s failed:\n%s" % (cmd, o[-3000:])])
            if os.path.exists(part):
                with open(part) as g:
                    data = g.read()
                with open(part, "w") as g:
                    g.write(data[:data.rfind("\n") + 1])
        if os.path.exists(part):
            parts.append(part)
    with open(path, "w") as f:
        for p in parts:
            with open(p) as g:
                for line in g:
                    f.write(line)
            os.remove(p)
    return True, "\n".join(outs), ({"problems": problems} if problems else {})
