ID = "C01"
GO_CMD = "c01"
GEN = ["Gen/GenC01.v"]
MODEL_VO = ["theories/C01/Spec.vo"]
PROOF_VO = ["theories/C01/Props.vo"]
PROPS_V = "theories/C01/Props.v"
EXTRACT = "extract/C01.v"
DESIGN_REF = "DESIGN.md section 5, C01"
TECHNIQUE = "Coq proof by induction over message histories on the concrete tx model (C15 queue + sendPackets/sendPacket) + correspondence on transport bytes"
RULE = ("messages of every total length k*(ps-8)+d, k in 0..3, d in {-1,0,+1}, for packet sizes {9,10,16,255,256,257,512,513,1024,2048,4096,16384,65534,65535} "
        "+ random sizes (all 9..300 + 200 random thorough), split over 1, 2 and many QueuePackage calls (every 2-split for short messages), each package written in 1..3 "
        "WriteBytes chunks, flushed by SendRemainingPackets or SendPackage, header types LANG/LOGIN/RPC/NORMAL, channel ids {0,1,255,256,65535}, packet counter started at 0/250/255; "
        "every third case is a 3-message history with a packet size change between the messages; plus real LanguagePackage encodings and random 1..5-message histories. "
        "Interrupted sends (fn 2): histories of QueuePackage/SendPackage/SendRemainingPackets calls, each with a live context or one that the capturing transport cancels "
        "after the k-th packet write of the call (k=0: already cancelled): every (budget k in 0..packets, boundary d) combination for messages of 1..4 packets over the same sizes "
        "(5 continuations: live flush / further QueuePackage / SendPackage / interrupted SendPackage / interrupted flush = abandoned message), several failed calls in a row, failures in the "
        "middle of multi-package messages, flushes of an empty queue with a dead context, random call histories; every history is followed by a fault-free message on the same channel. "
        "Observable: the bytes of every transport write, per message (fn 2: per call, with the error flag and whether packets stay queued). Non-trivial: payload of at least one full packet body or at least two packages; distinct by input.")
TRUSTED = ["Coq 8.16.1 kernel + vm_compute", "hand-written models coq/theories/C15/Model.v and C01/Model.v (tied by correspondence)",
           "constants hdr_size/eom_bit/buf_normal re-tabulated from the code (Gen/GenC01.v)",
           "harness/cmd/c01 (capturing transport, chunk packages), tds/verif_hooks.go, ocaml/driver.ml, extraction (ExtrOcamlBasic)"]
ASSUMPTIONS = ["the packet size does not change within a message", "the transport accepts every write completely",
               "contexts of the interrupted histories are cancelled only between packet writes, by the transport after the k-th write (what C13 says about cancellation is not repeated here); a transport write never fails", "channel ids > 0 are set through a verif hook (channel setup itself is C12)"]
LEVEL_TEXT = ("Machine-checked theorems C01_message and C01_history: for every packet size 9..65535, channel id, header type, packet counter, "
              "every list of packages written in any chunks and every history of messages (packet size per message), the bytes written by the model of "
              "QueuePackage/SendRemainingPackets/sendPackets/sendPacket on the concrete PacketQueue model satisfy the independent well-formedness predicate tx_ok "
              "(bodies concatenate to the payload, header length = real size <= packet size, all but the last full, type/channel constant, consecutive packet "
              "numbers mod 256, EOM on the last packet only) and leave the queue empty. Proof by induction over packages and messages using the C15 write-layout "
              "theorem; the exact-multiple lengths are covered by the universally quantified statement. The model is compared with the Go channel on the bytes of every transport write. "
              "Interrupted sends: C01_interrupted_queue - from every queue state reachable between QueuePackage calls (invariant msg_qi, C01_interrupted_states), for every package list and EVERY "
              "budget per call (context done after k packets), the writes of the interrupted QueuePackage calls plus a live flush equal those of the uninterrupted message, same final state "
              "(both are the unique packetisation of the queued bytes, canon_unique); C01_interrupted_message: they satisfy tx_ok; C01_interrupted_flush: an interrupted SendRemainingPackets empties "
              "the queue and wrote a proper prefix (tx_prefix_ok), an uninterrupted one equals the live flush; C01_interrupted_history: for EVERY history of segments of QueuePackage/SendPackage/"
              "SendRemainingPackets calls under any budgets (each segment closed by a flush), the model's per-call observations satisfy the executable fn-2 specification segments_ok.")
LEVEL_NOTE = ("Trusted: Coq kernel; the hand-written tx model (validated by correspondence on ~1350 fault-free message histories and ~3300 interrupted call histories per quick run incl. all boundary lengths); "
              "constants from Gen/GenC01.v; harness + verif hooks; extraction + OCaml driver. Assumes the packet size is constant within a message and the transport accepts full writes.")
def nontrivial(c):
    return len(c[1]) > 60
DEPS = ["C15"]
