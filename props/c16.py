ID = "C16"
GO_CMD = "c16"
MODEL_VO = ["theories/C16/Spec.vo"]
PROOF_VO = ["theories/C16/Props.vo"]
PROPS_V = "theories/C16/Props.v"
EXTRACT = "extract/C16.v"
DESIGN_REF = "DESIGN.md section 5, C16"
TECHNIQUE = "placeholder"
RULE = "placeholder"
TRUSTED = []
ASSUMPTIONS = []
LEVEL_TEXT = ""
LEVEL_NOTE = ""
def nontrivial(c):
    return True
