ID = "C16"
GO_CMD = "c16"
MODEL_VO = ["theories/C16/Spec.vo"]
PROOF_VO = ["theories/C16/Props.vo"]
PROPS_V = "theories/C16/Props.v"
EXTRACT = "extract/C16.v"
DESIGN_REF = "DESIGN.md section 5, C16"
TECHNIQUE = ("Coq proof about a hand-written model of Decimal.String / SetString / sanity (digit strings as code-point lists, "
             "positional-notation library) and of ONE Decimal object as a state machine (precision, scale, integer | nil) under histories of "
             "method calls and direct field assignments, against an independent numeral/value/shape specification + "
             "model-vs-implementation correspondence on generated (precision, scale, value) triples, texts and multi-step histories")
RULE = ("fn 1 (String): all 741 (precision, scale) pairs with 0 <= scale <= precision <= 38, 1 <= precision, plus precision 0, times the "
        "boundary integers {0, +-1, +-10^k, +-(10^k - 1) for every k <= precision, 10^k + 1 at k in {0, 1, p-1, p-s} (every k thorough)} "
        "exhaustively, random integers of every digit length 1..precision (12 per length thorough), multiples of powers of ten (zeros around the "
        "split point), values with more digits than the precision (model equality only); String is called twice, the value is read back "
        "afterwards and the text is parsed back and compared with Cmp. "
        "fn 2 (NewDecimalString) / fn 4 (SetString on a decimal holding another value): texts printed by String, a fixed list per pair "
        "(limits 9..9.9..9, 10^(p-s), one digit too many, '', '.', signs, '.-5', '1.2.3', unicode digits and spaces), 40 (600 thorough) generated "
        "texts per pair from 14 classes: canonical, leading/trailing zeros, missing integer or fraction part, spaces (all Unicode White_Space "
        "code points, look-alikes that are not), '+', several points, inserted junk, sign or junk in the fraction, too many digits, too many "
        "fraction digits, random strings over '0-9.+- e', random digit strings of length 0..p+2, misplaced signs, limits. "
        "fn 3 (NewDecimal): every (precision, scale) in -2..40 squared and six far-away pairs. "
        "fn 5 (histories of 2..6 operations on ONE object; after EVERY operation Precision, Scale, Int() are read back, a copy of the struct is "
        "printed and the text is parsed back and Cmp'ed): operations String, SetString, SetInt64, SetBytes, Negate, Precision = p, Scale = s, both, "
        "read accessors (IsNegative, Int, Bytes, ByteSize, Cmp with a fresh decimal in the same state); every word of length 2 and 3 over a "
        "9-operation alphabet from 6 starting points (NewDecimal(18,0), (5,2), (38,19), (0,0), a struct literal without integer, and one whose "
        "assignments leave the valid range), length 4 from the first (from all six thorough); the call-site flows 'set value, [format|read], "
        "assign Precision/Scale, format' into every (precision, scale) pair; 2 (40 thorough) random histories per pair whose values and texts are "
        "drawn for the precision/scale the object has at that moment, with occasional out-of-range assignments (precision up to 41, scale -1..40). "
        "Non-trivial = everything except fn 3 (each fn 3 case is a distinct point of the construction domain and is counted too); distinct by (fn, input). fn 6 (wire leg): values around every machine-word boundary of the magnitude (2^7 .. 2^127, 10^19), powers of ten and random values are encoded as DECN / NUMN (asetypes/bytes.go), decoded again (asetypes/goValue.go), given their precision and scale as tds field data does, and must then print and round-trip as in fn 1.")
TRUSTED = ["Coq 8.16.1 kernel + vm_compute (no native_compute)",
           "hand-written model coq/theories/C16/Model.v of asetypes/decimal.go (tied by this correspondence check)",
           "math/big (Int.String, Int.SetString base 10, Abs, Exp, Mul, SetBytes, Neg, Bytes), fmt (%0<w>s of a *big.Int through big.Int.Format, %s) and "
           "strings (TrimSpace, Split, TrimLeft, TrimRight) are MODELLED by Coq definitions, not verified; the correspondence run cross-checks them",
           "harness/cmd/c16 (public API only: NewDecimal, struct literal, exported fields Precision/Scale, SetBytes, SetInt64, Negate, String, Int, Bytes, "
           "ByteSize, IsNegative, Cmp, NewDecimalString, SetString), ocaml/driver.ml, "
           "extraction with ExtrOcamlBasic only"]
ASSUMPTIONS = ["texts are valid UTF-8 and are modelled as lists of code points (len(right) is only used after right is known to consist of ASCII digits)",
               "errors are observed as error / no error (the message is not compared)",
               "a Decimal is built through NewDecimal or as a struct literal (dec.i nil: prints '<nil>', outside the property) and its exported fields "
               "may be assigned at any time; assigned precisions are >= 0 (a negative precision would turn the fmt width into a flag; not modelled)",
               "the state of a Decimal is (Precision, Scale, integer): the theorems about histories are theorems about this model; that the Go object "
               "has no further state influencing String is exactly what the fn 5 correspondence run tests (copies of the struct share the *big.Int)",
               "the quantifier of the round-trip/shape/value theorems is |i| < 10^precision; longer values (reachable through SetBytes/SetInt64) print a "
               "text with another value and are outside the property (model equality is still checked for them)",
               "precision 0 is legal (NewDecimal(0,0)) and holds only 0; the theorems are stated for precision >= 1 and precision 0 is checked by computation"]
LEVEL_TEXT = ("Machine-checked theorems for ALL precisions >= 1, scales 0..precision and integers |i| < 10^precision: parsing the printed text "
              "returns the same unscaled integer (C16_roundtrip, C16_roundtrip_new), the text has the regular shape (C16_shape) and denotes exactly "
              "i/10^scale (C16_value, C16_value_Q over Q); for ALL texts over all code points SetString answers as the independent numeral "
              "specification admits (C16_parse_all): junk is an error (C16_parse_junk, C16_two_points), unrepresentable numerals are errors "
              "(C16_parse_unrepresentable, C16_written_toofrac), proper representable numerals yield exactly numeral*10^scale (C16_parse_exact, "
              "C16_written_point, C16_written_int), nothing is accepted with another value (C16_parse_sound, C16_repr_iff); NewDecimal accepts exactly "
              "0 <= scale <= precision <= 38 (C16_sanity). For ALL histories of calls and field assignments on one object, from any state: what is read back and "
              "printed after every step is the current state and its text (C16_history_trace), and in every state inside the property that text is the "
              "exact expansion of the CURRENT integer / 10^scale and parses back (C16_history_text); formatting and reading change nothing "
              "(C16_history_readonly); the step-by-step specification predicate accepts the model's trace (C16_history_spec_of_model). "
              "The model is compared with the Go code on ~220k cases per quick run (15k of them histories).")
LEVEL_NOTE = ("Trusted: Coq kernel, the hand-written model incl. its rendering of math/big, fmt and strings (validated by correspondence), the Go harness, "
              "extraction and the OCaml driver. No axioms. Numerals without integer digits ('.5') may be accepted with their exact value or rejected "
              "(the code rejects '.0' but accepts '.5'); the specification allows both, never another value.")
def nontrivial(c):
    return True
