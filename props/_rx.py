"""shared settings of the checks that run on the receive-path model (Rx/*.v over the package registry)"""
GO_CMD = "rx"
GEN = ["Gen/GenPkg.v"]
MODEL_VO = ["theories/Rx/Spec.vo"]
EXTRACT = "extract/Rx.v"
DEPS = ["Pkg", "Rx", "C01", "C15"]
TRUSTED = ["Coq 8.16.1 kernel + vm_compute",
           "hand-written models coq/theories/Rx/{Model,Consumer,Transport}.v over the package decoders of coq/theories/Pkg (tied to the code by this correspondence and by C06/C07/C10's)",
           "token / data-type tables re-tabulated from the code (Gen/GenPkg.v)",
           "harness/pk/core/rx.go (response generator, packetiser, scripted net.Conn, renderers), tds/verif_hooks.go, ocaml/driver.ml, extraction (ExtrOcamlBasic only)"]
ASSUMPTIONS_COMMON = [
    "the receive queue is modelled as the flat FIFO of unparsed bytes; C15_fifo proves the concrete PacketQueue refines it for the operations used",
    "goroutine scheduling, channel capacities and timers are not in the model: the harness observes the real reader goroutine / Channel through NextPackage and compares what is delivered",
    "BLOB field data and the CONTROL/KEY/OPTIONCMD/CURCLOSE tokens (which LookupPackage does not know: they become TokenlessPackage) are modelled as the code treats them, not as TDS specifies them"]
