ID = "C04"
GO_CMD = "c04"
GEN = ["Gen/GenC04.v", "Gen/GenPkg.v"]
DEPS = ["Pkg"]
DRIVE_ARGS = ["-prop", "C04"]
MODEL_VO = ["theories/C04/Spec.vo", "theories/C04/PkgLeg.vo"]
PROOF_VO = ["theories/C04/Props.vo"]
PROPS_V = "theories/C04/Props.v"
EXTRACT = "extract/C04.v"
DESIGN_REF = "DESIGN.md section 5, C04 and Appendix C (value level: asetypes.DataType.Bytes / GoValue; the package leg is built on enc_value/dec_value of coq/theories/C04/Model.v)"
TECHNIQUE = ("Coq proofs of the round trip per data type class over the whole value domain (calendar: one 146097-day era sweep + "
             "linear arithmetic, valid for every year) + model-vs-implementation correspondence and executable round-trip "
             "specification applied to the implementation's output")
RULE = ("fn 1 = Bytes then GoValue of the produced bytes for (type, length, value): all 256 type codes with nil; every uint8/int8/int16/uint16 "
        "value (INT1, INT2, UINT2; INTN/UINTN 8-bit exhaustive, 16-bit every 7th + boundaries); boundary (0, +-1, +-2^k, 2^k-1, min, max) and random "
        "int32/int64/uint32/uint64; float32/float64 bit patterns for every exponent x {0, 1, mid, max, random mantissa} x sign, NaN payloads, random; "
        "money over int64/int32 boundaries + random; DECN/NUMN for every precision 1..38 x scale 0..p with 0, +-1, +-10^k, +-(10^k-1), "
        "+-(10^p-1), byte-length boundaries, random; byte strings of every length 1..255 (+256, 65535, 65536, 70000 for the 4-byte-length types) "
        "for CHAR/VARCHAR/LONGCHAR/TEXT/BINARY/VARBINARY/LONGBINARY/IMAGE/XML; Unicode strings over all planes, lengths 1..255 and long; "
        "DATE for every day of the years 1..2, 1582/83, 1752/53, 1890..1910, 2078..2080, 9998..9999, every 3rd day of 1580..1760, the last day of every "
        "month of every year, 1 Jan and 1 Mar of every year, every first of a month in every 4th year, every 29 Feb (thorough: every day of 1..9999); "
        "DATETIME at 00:00 and 12:34:56.789 on the dense days, at 12:34:56.789 on month ends of every 5th year; the first and last 1000 ticks of a day and "
        "20000 random ticks (on the tick, just below and at the rounding boundary) on 8 sample days incl. pre-1900; the whole last half tick; 20000 random "
        "microseconds of random days; SHORTDATE for every day 0..65535 x sampled minutes (all 1440 on 3 days); BIGDATETIMEN/BIGTIMEN on the same; "
        "fn 2 = GoValue of arbitrary bytes (all type codes x lengths 0..9, arbitrary UTF-16 incl. lone surrogates, all BIT bytes, temporal lengths); "
        "fn 3 = ByteSize/LengthBytes/GoReflectType/String of all 256 codes; fn 4 = asetime helpers; thorough adds fn 9 = all 25.92M ticks of two days on the Go side. "
        "Values off the property's domain (tag offdomain/malformed) are compared with the model only. A case is non-trivial when its value is not NULL; distinct by (fn, input).")
TRUSTED = ["Coq 8.16.1 kernel + vm_compute (no native_compute)",
           "hand-written model coq/theories/C04/{GoInt,Calendar,Utf16,Model}.v of asetypes/{bytes,goValue,decimal}.go and asetime (tied by this correspondence check); "
           "tables ByteSize/LengthBytes/GoReflectType/String in Gen/GenC04.v produced by executing the code",
           "harness/cmd/c04 (canonicalisation of Go values: time.Time as UTC fields, decimals as (precision, scale, unscaled), floats by bit pattern, "
           "strings by bytes / UNITEXT by code points), ocaml/driver.ml, extraction with ExtrOcamlBasic only",
           "Go's time package (time.Date normalisation, AddDate, Add, Year/Month/Day/...) and math/big, modelled as the proleptic Gregorian calendar / integers"]
ASSUMPTIONS = ["asetime.MillisecondToFractionalSecond / FractionalSecondToMillisecond compute in float64; the model uses the integer formulas "
               "round-half-away(3*us/10^4) and trunc(1000*t/300); this replacement is validated by the correspondence run, not proved",
               "the byte order argument is binary.LittleEndian (the package variable tds.endian)",
               "Go strings are identified with their byte sequence (char types) or code point sequence (UNITEXT; []rune / string(runes) conversions are not modelled, harness strings are valid UTF-8)",
               "time.Time values are given by their UTC civil fields; years outside 1..9999 are compared with the model only",
               "Decimal values beyond int64 for money, wrong Go types, wrong lengths: compared with the model only (outside the property's domain)"]
LEVEL_TEXT = ("Machine-checked theorems, for ALL values of each domain: C04_int_roundtrip, C04_intn_roundtrip (every value of every width), C04_float_roundtrip "
              "(all bit patterns), C04_bit_roundtrip, C04_money_roundtrip / C04_shortmoney_roundtrip (whole int64 / int32 range), C04_numeric_roundtrip (every "
              "integer, unbounded), C04_char_roundtrip / C04_binary_roundtrip (every non-empty byte string), C04_unitext_roundtrip (every list of scalar values "
              "not ending in U+0000), C04_date_roundtrip (every day of years 1..9999, any time part), C04_datetime_tick (every nanosecond of every day: < 1/300 s, "
              "exact on ticks, incl. the carry into the next day), C04_smalldatetime, C04_bigdatetime_us, C04_bigtime_us, C04_time_tick (with the saturating last "
              "half tick), C04_null, C04_null_decimal, C04_civil_inverse (every year), C04_ref_index_is_walk, and the summary C04_model_meets_spec: the model "
              "satisfies the executable round-trip specification on the whole domain (Spec.in_domain) and for NULL of every nullable type. The executable specification (domains of Appendix C, "
              "tolerance measured with an independent next_day calendar) is applied to every implementation output.")
LEVEL_NOTE = ("Trusted: Coq kernel, the hand-written model (validated on ~0.9M cases per quick run with 0 mismatches), the Go harness and its canonicalisation, "
              "extraction and the OCaml driver; the float-to-integer replacement in the tick conversions is an assumption validated by the correspondence. No axioms. "
              "The package-level leg (values inside PARAMS/ROW packages, tds/field.go) is not part of this module's cases.")
def nontrivial(c):
    return "\t" not in c[1] and " ()" not in c[1][-4:]
