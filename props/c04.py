ID = "C04"
GO_CMD = "c04"
GEN = ["Gen/GenC04.v"]
DRIVE_ARGS = ["-prop", "C04"]
MODEL_VO = ["theories/C04/Spec.vo"]
PROOF_VO = ["theories/C04/Props.vo"]
PROPS_V = "theories/C04/Props.v"
EXTRACT = "extract/C04.v"
DESIGN_REF = "DESIGN.md section 5, C04"
TECHNIQUE = "tbd"
RULE = "tbd"
TRUSTED = []
ASSUMPTIONS = []
LEVEL_TEXT = "tbd"
LEVEL_NOTE = "tbd"
def nontrivial(c):
    return True
