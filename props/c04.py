ID = "C04"
GO_CMD = "c04"
GEN = ["Gen/GenC04.v", "Gen/GenPkg.v"]
DEPS = ["Pkg"]
DRIVE_ARGS = ["-prop", "C04"]
MODEL_VO = ["theories/C04/Spec.vo", "theories/C04/PkgLeg.vo"]
PROOF_VO = ["theories/C04/Props.vo"]
PROPS_V = "theories/C04/Props.v"
EXTRACT = "extract/C04.v"
DESIGN_REF = "DESIGN.md section 5, C04 and Appendix C (value level: asetypes.DataType.Bytes / GoValue; package leg: tds/field.go + packageParams.go composed with the value codec, coq/theories/C04/PkgLeg.v on top of coq/theories/Pkg)"
TECHNIQUE = ("Coq proofs of the round trip per data type class over the whole value domain (calendar: one 146097-day era sweep + "
             "linear arithmetic, valid for every year) and of its composition with the PARAMS/ROW field codec for whole rows (induction over the "
             "column list from the package layer's params_roundtrip and C04_model_meets_spec) + model-vs-implementation correspondence and "
             "executable round-trip specification applied to the implementation's output, at value level and through the real packages")
RULE = ("fn 1 = Bytes then GoValue of the produced bytes for (type, length, value), plus a second Bytes call on the SAME Go value object and a rendering of "
        "the object before/after (second outcome = first, object unchanged: third output component (1 1), compared exactly with the model and demanded by the "
        "spec predicate on every case): all 256 type codes with nil; every uint8/int8/int16/uint16 "
        "value (INT1, INT2, UINT2; INTN/UINTN 8-bit exhaustive, 16-bit every 7th + boundaries); boundary (0, +-1, +-2^k, 2^k-1, min, max) and random "
        "int32/int64/uint32/uint64; float32/float64 bit patterns for every exponent x {0, 1, mid, max, random mantissa} x sign, NaN payloads, random; "
        "money over int64/int32 boundaries + random; DECN/NUMN for every precision 1..38 x scale 0..p with 0, +-1, +-10^k, +-(10^k-1), "
        "+-(10^p-1), byte-length boundaries, random; byte strings of every length 1..255 (+256, 65535, 65536, 70000 for the 4-byte-length types) "
        "for CHAR/VARCHAR/LONGCHAR/TEXT/BINARY/VARBINARY/LONGBINARY/IMAGE/XML; Unicode strings over all planes, lengths 1..255 and long; "
        "DATE for every day of the years 1..2, 1582/83, 1752/53, 1890..1910, 2078..2080, 9998..9999, every 3rd day of 1580..1760, the last day of every "
        "month of every year, 1 Jan and 1 Mar of every year, every first of a month in every 4th year, every 29 Feb (thorough: every day of 1..9999); "
        "DATETIME at 00:00 and 12:34:56.789 on the dense days, at 12:34:56.789 on month ends of every 5th year; the first and last 1000 ticks of a day and "
        "20000 random ticks (on the tick, just below and at the rounding boundary) on 8 sample days incl. pre-1900; the whole last half tick; 20000 random "
        "microseconds of random days; SHORTDATE for every day 0..65535 x sampled minutes (all 1440 on 3 days); BIGDATETIMEN/BIGTIMEN on the same; "
        "second-boundary family for every temporal type (SHORTDATE, DATETIMEN(4), DATETIME, DATETIMEN(8), DATE, DATEN, BIGDATETIMEN, TIME, TIMEN, BIGTIMEN): "
        "hh:mm:59.996/.996666/.996667/.997/.998/.998333/.998333999/.998334/.9985/.999/.999999/.999999999 and seconds 0, 29, 30, 58, 59 (+.999999999) at "
        "00:00, 00:59, 11:59, 12:00, 12:30, 22:59, 23:00, 23:58, 23:59 on the first/last day of each type's range and the day before (smalldatetime "
        "1900-01-01/02 .. 2079-06-05/06; datetime 0001-01-01, 1753-01-01, 1899-12-30/31, 9999-12-30/31), about 15000 cases; DECN/NUMN magnitudes at the "
        "machine-word boundary (+-(2^63-1), 2^63, 2^63+1, 2^64-1, 2^64, 2^64+1, 10^19-1, 10^19, 2^31, 2^32) for precisions 10/19/20/21/38 x scales 0, 1, 4, p/2, p; "
        "fn 2 = GoValue of arbitrary bytes (all type codes x lengths 0..9, arbitrary UTF-16 incl. lone surrogates, all BIT bytes, temporal lengths); "
        "fn 3 = ByteSize/LengthBytes/GoReflectType/String of all 256 codes; fn 4 = asetime helpers; thorough adds fn 9 = all 25.92M ticks of two days on the Go side. "
        "Values off the property's domain (tag offdomain/malformed) are compared with the model only. A case is non-trivial when its value is not NULL; distinct by (fn, input). "
        "PACKAGE LEG (about 3000 cases quick, 16000 thorough): fn 20 = the real client path for lists of (format, value): Go value -> LookupFieldData(fmt).SetValue -> "
        "ParamsPackage / RowPackage with its PARAMFMT / PARAMFMT2 / ROWFMT / ROWFMT2 package (read by the library from a reference encoding) as LastPkg -> WriteTo -> "
        "wire bytes -> LookupPackage + LastPkg + ReadFrom on a queue of 512-byte packets -> Status()/Value() of every field; compared with the model (bytes, class, "
        "bytes consumed, values) and judged by leg_judge (the wire is the layout of the columns, all bytes consumed, Spec.roundtrip_ok on every value that comes out, "
        "DECN/NUMN precision and scale from the format, NULL <-> zero length, status bytes): every plain data type (33 types, fixed and nullable variants, with and without the "
        "status byte) with boundary + random values (integer kinds at min/max/0/+-1/byte-width boundaries; float bit patterns incl. NaN/Inf/-0; money int64/int32 "
        "extremes; decimals for several (p, s) with 0, +-1, +-(10^p-1); pre-1900, year 1, year 9999 and tick-boundary times; NULL for every nullable type) as a single "
        "column, data lengths 1, 2, 253, 254, 255 (in the domain) and 256, 257, 300, 511, 512 (beyond the prefix: compared with the model only) for the 1-byte-prefix types "
        "CHAR/VARCHAR/BINARY/VARBINARY alone and as the middle column of a row, 1, 255, 256, 65535, 65536, 70000 for the 4-byte-prefix types LONGCHAR/LONGBINARY (there is no "
        "data type with a 2-byte prefix), 250 (thorough 6000) random rows of 2..7 columns over all plain types. fn 21 = decode direction: rows reference-encoded by the harness' own "
        "value codec and the TDS field layout (the spec checks that body against the Coq layout), read by the library, Value() judged strictly: all plain types with status "
        "bytes, multi-column rows, and single text-pointer columns TEXT/IMAGE/UNITEXT/XML (lengths 1..700, 65536, Unicode over all planes, NULL, pointer lengths 0/16/255). "
        "fn 22 = the same text-pointer rows (alone and mixed with plain columns) judged by the part that holds: Value() is exactly the data bytes and dec_value maps them to the value. "
        "Columns outside PkgLeg.col_claim (value off the domain, length beyond the prefix, NULL for a fixed-length type, ...) are compared with the model only.")
TRUSTED = ["Coq 8.16.1 kernel + vm_compute (no native_compute)",
           "hand-written model coq/theories/C04/{GoInt,Calendar,Utf16,Model}.v of asetypes/{bytes,goValue,decimal}.go and asetime (tied by this correspondence check); "
           "tables ByteSize/LengthBytes/GoReflectType/String in Gen/GenC04.v produced by executing the code",
           "harness/cmd/c04 (canonicalisation of Go values: time.Time as UTC fields, decimals as (precision, scale, unscaled), floats by bit pattern, "
           "strings by bytes / UNITEXT by code points), ocaml/driver.ml, extraction with ExtrOcamlBasic only",
           "package leg: the hand-written field/params models coq/theories/Pkg/{Field,Fmts}.v (shared with C06, tied by C06's and this correspondence), their tables "
           "Gen/GenPkg.v produced by executing the code, harness/cmd/c04/pkgleg.go (reference format/field layout, harness/pk queue helpers, harness/pk/core.FmtTree), "
           "tds/verif_hooks.go (VerifState, VerifFmtExtras)",
           "Go's time package (time.Date normalisation, AddDate, Add, Year/Month/Day/...) and math/big, modelled as the proleptic Gregorian calendar / integers"]
ASSUMPTIONS = ["asetime.MillisecondToFractionalSecond / FractionalSecondToMillisecond compute in float64; the model uses the integer formulas "
               "round-half-away(3*us/10^4) and trunc(1000*t/300); this replacement is validated by the correspondence run, not proved",
               "the byte order argument is binary.LittleEndian (the package variable tds.endian)",
               "Go strings are identified with their byte sequence (char types) or code point sequence (UNITEXT; []rune / string(runes) conversions are not modelled, harness strings are valid UTF-8)",
               "time.Time values are given by their UTC civil fields; years outside 1..9999 are compared with the model only",
               "Decimal values beyond int64 for money, wrong Go types, wrong lengths: compared with the model only (outside the property's domain)",
               "package leg, side condition of the domain (boolean PkgLeg.col_claim): the encoded value fits the width of its length prefix, zlen (enc_value t v) < 256^LengthBytes "
               "(255 bytes for the 1-byte-prefix types, 2^32-1 for LONGCHAR/LONGBINARY and text-pointer data). Beyond it fieldDataBase.writeTo writes uint8(len)/uint32(len) "
               "silently (a 256-byte VARCHAR goes out as length byte 00 + 256 data bytes and reads back as NULL with 256 stray bytes left); the declared MaxLength is not enforced "
               "by the writer either. Both are outside the property's domain (string length 1..max) and only compared with the model (Example C04_ex_pkg_overlong)",
               "package leg: a client-built FieldData always has status 0 (no setter); non-zero status bytes are exercised in the decode direction only",
               "package leg: DECN/NUMN values are claimed only with the precision/scale of their format (precision and scale are not on the wire in the data, they travel in the format)",
               "package leg: for the text-pointer family only the decode direction is claimed (a client never sends it); leg_write is there the reference row layout, not fieldDataTxtPtr.WriteTo",
               "package leg: packets are fed complete (fragmentation independence is C02/C07); the format packages are obtained by letting the library read reference encodings (C06 decides their codec)"]
LEVEL_TEXT = ("Machine-checked theorems, for ALL values of each domain: C04_int_roundtrip, C04_intn_roundtrip (every value of every width), C04_float_roundtrip "
              "(all bit patterns), C04_bit_roundtrip, C04_money_roundtrip / C04_shortmoney_roundtrip (whole int64 / int32 range), C04_numeric_roundtrip (every "
              "integer, unbounded), C04_char_roundtrip / C04_binary_roundtrip (every non-empty byte string), C04_unitext_roundtrip (every list of scalar values "
              "not ending in U+0000), C04_date_roundtrip (every day of years 1..9999, any time part), C04_datetime_tick (every nanosecond of every day: < 1/300 s, "
              "exact on ticks, incl. the carry into the next day), C04_smalldatetime, C04_bigdatetime_us, C04_bigtime_us, C04_time_tick (with the saturating last "
              "half tick), C04_null, C04_null_decimal, C04_civil_inverse (every year), C04_ref_index_is_walk, and the summary C04_model_meets_spec: the model "
              "satisfies the executable round-trip specification on the whole domain (Spec.in_domain) and for NULL of every nullable type; C04_model_pure (the model's fn 1 output carries the observation 'second encoding = first, value object "
              "unchanged' that the specification demands). The executable specification (domains of Appendix C, "
              "tolerance measured with an independent next_day calendar) is applied to every implementation output. "
              "Package leg: C04_pkg_roundtrip (for EVERY list of claimed columns, any mix of types, PARAMS or ROW: the package written for them is read back by the package decoder with the "
              "formats as context, consuming exactly the bytes written whatever follows; every field carries the status sent and the encoded value, NULL travels as zero length, and dec_value "
              "maps the field data back to the value as roundtrip_ok says; by induction over the list from Pkg.CoreRoundtrip.params_roundtrip and C04_model_meets_spec; covers the decode "
              "direction of the text-pointer family), C04_pkg_model_meets_spec (the model of WriteTo/ReadFrom/Value() satisfies the executable specification leg_judge: strictly for plain, "
              "precision/scale and IMAGE/XML columns, and for all columns the part val_raw_ok), C04_pkg_txtptr_refuted + C04_pkg_txtptr_witnesses (the strict statement is FALSE of the "
              "faithful model for TEXT, UNITEXT and NULL text-pointer columns: fieldDataTxtPtr.ReadFrom delivers the raw bytes; recorded as known findings), C04_pkg_maxlen_admits, and the "
              "table obligations C04_pkg_tables_agree / _len_table_covers / _nullable_not_fixed / _class2_is_decimal re-proved against the regenerated tables on every run.")
LEVEL_NOTE = ("Trusted: Coq kernel, the hand-written model (validated on ~0.9M cases per quick run with 0 mismatches), the Go harness and its canonicalisation, "
              "extraction and the OCaml driver; the float-to-integer replacement in the tick conversions is an assumption validated by the correspondence. No axioms. "
              "The package leg rests in addition on the hand-written Pkg/Field.v, Pkg/Fmts.v models (0 mismatches on ~3000 package cases per quick run) and on the harness' reference "
              "format/field layout. Known findings (fn 21): text-pointer rows deliver raw bytes instead of the Go value for TEXT/UNITEXT and a non-nil empty []byte for NULL.")
import re as _re
_PKG_VALUE = _re.compile(r"\) -?\d+ #[0-9a-f]* #[0-9a-f]* \([^)]")   # a column (format status #txtptr #timestamp value) whose value is not ()
def nontrivial(c):
    if c[0] in ("20", "21", "22"):      # package leg: at least one column carries a non-NULL value
        return bool(_PKG_VALUE.search(c[1]))
    return "\t" not in c[1] and " ()" not in c[1][-4:]
