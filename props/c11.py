from props._rx import *
ID = "C11"
DRIVE_ARGS = ["-prop", "C11"]
PROOF_VO = ["theories/C11/Props.vo"]
PROPS_V = "theories/C11/Props.v"
DESIGN_REF = "DESIGN.md section 5, C11"
TECHNIQUE = ("Coq proof that every parsed package produces exactly one of {hook events only, nothing, hooks-then-delivery}, each hook exactly once and in registration order, independent of fragmentation; "
             "consumer theorem for the EEDError contents + correspondence with the real Channel with 0..3 registered EED / ENVCHANGE hooks")
RULE = ("responses with any number and placement of EED packages (info / non-info status) and ENVCHANGE packages with 0..n members (packet size members valid, malformed and out of range), "
        "0..3 EED hooks and 0..3 env hooks registered; one packet, every single cut, random many-cut packetisations, multi-round histories, the same histories with further hooks registered before random packets (between responses and in the middle of one); consumer cases with failing callbacks: "
        "hook calls (hook index, message / type, old, new), deliveries, Conn.PacketSize() and the EEDError contents are compared with the model's. Non-trivial = input longer than 60 characters; distinct by input. Further and REFUSED registrations between packets (fn 14): a hook list with a nil at the first / a middle / the last place is rejected and must register nothing (a hook of a refused list that is called later, or a refused list that is accepted, shows up as an event the model does not have); empty packets anywhere (cut-ho); packet sizes at every boundary of the 16-bit length (9, 10, 255, 256, 32767, 32768, 65024, 65535, 65536, 70000) and unparsable numerals.")
ASSUMPTIONS = ASSUMPTIONS_COMMON + ["registration itself (mutex-guarded append) is not modelled: the model takes the number of hooks in force at each packet (fn 14 varies it on the way); hook i is the i-th registered"]
LEVEL_TEXT = ("C11_events_of_a_package: for every package, state and hook count: ENVCHANGE yields hook/packet-size events only and is never delivered; an informational EED yields nothing; any other package is "
              "delivered exactly once, an EED after one call of every hook in order. C11_hook_once; C11_exactly_once_under_fragmentation (a retried incomplete package calls no hook twice, for EVERY cut set); "
              "C11_error_carries_messages (EEDError = the messages received before the failing callback, in order). The model is compared with the implementation on every run.")
LEVEL_NOTE = "Trusted: Coq kernel; hand-written rx/consumer models (validated by correspondence on every run); Go harness; extraction + driver."
def nontrivial(c):
    return len(c[1]) > 60
