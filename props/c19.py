ID = "C19"
GO_CMD = "c19"
GEN = ["Gen/GenC19.v"]
MODEL_VO = ["theories/C19/Spec.vo"]
PROOF_VO = ["theories/C19/Props.vo"]
PROPS_V = "theories/C19/Props.v"
EXTRACT = "extract/C19.v"
DESIGN_REF = "DESIGN.md section 5, C19"
TECHNIQUE = ("Coq proof over an abstract comparer (model of NewCapability / contains / SetCapabilities / Has against an interval-membership "
             "specification, all capability lists, all versions, any comparer) + model-vs-implementation correspondence on a grid of version "
             "strings whose comparer outcome matrices are re-tabulated from the code on every run")
RULE = ("grid of 70 version strings (\"\", 8 strings the default comparer refuses, 8 non-strict notations, 53 semantic versions with pre-release and "
        "build suffixes). fn 9: every pair of the grid through the default, the reverse-lexicographic and the chaotic comparer (matrix; spec = "
        "independent semver.org ordering). fn 2: NewCapability on every argument list over {\"\",a,b} up to length 5 + random lists to length 9. "
        "fn 1 (one case = one target evaluated against ALL 70 versions via Target.Version + Has for every registered and one unregistered capability): "
        "EVERY single range (lo,hi) over the whole grid incl. \"\" and unparsable strings for the nil (default), reverse-lexicographic and chaotic comparer "
        "(+ explicitly passed default comparer thorough), odd-tail one-sided ranges, capabilities without ranges, 260 (4000 thorough) random sets of 2..4 ranges "
        "(open-ended, (\"\",\"\"), inverted, zero-width, unparsable bounds mixed in) in ALL permutations, 300 (5000) random targets of 1..4 capabilities with 0..4 ranges "
        "in original/reversed/shuffled order with shuffled ranges and with one capability pointer registered twice, malformed argument lists; "
        "fn 3: SetCapabilities with a recording Version, the exact SetCapability call sequence and the error (class + the two strings named in the message) "
        "for all 70 versions. Capability OBJECTS identified by position, never by description (fn 4/5/6/7): fn 4 = targets whose capabilities share "
        "descriptions (all empty, all equal, pairwise distinct, drawn from a small pool, one repeating another's, an UNREGISTERED object repeating a registered "
        "one's), built by NewCapability or as struct literals (empty / nil VersionRanges), listed in original/reversed/shuffled order and with one object "
        "listed twice, Has asked for EVERY object: exhaustive two-object enumeration (7 shapes of the second object x 3 description pairs x construction kinds "
        "x 9 listings) + 400 (6000) random sets x 4 listings; fn 7 = the same through SetCapabilities with a recording Version, 150 (2500); fn 5 = scripts of "
        "calls on ONE Version object (DefaultVersion.SetCapability / Has / VersionString directly and on value copies, Target.SetCapabilities with several "
        "targets/comparers on a version that already carries answers, ranges appended to a capability in between; Version = NewDefaultVersion, caller-supplied "
        "structs embedding it as interface / pointer / value, the zero value DefaultVersion{}), 90 enumerated + 500 (8000) random; fn 6 = VersionRange.String / "
        "Capability.String for every bound of the grid + 300 (3000) random objects. "
        "Non-trivial = the target has at least one range; distinct by (fn, input).")
TRUSTED = ["Coq 8.16.1 kernel + vm_compute (no native_compute)",
           "hand-written model coq/theories/C19/Model.v of capability/{capability,versionRange,target,defaultVersion}.go (tied by this correspondence check)",
           "harness/cmd/c19 (runs the implementation, tabulates the comparers into Gen/GenC19.v, classifies error messages by their fixed prefixes), "
           "ocaml/driver.ml, extraction with ExtrOcamlBasic only"]
ASSUMPTIONS = ["the comparer is a deterministic function of its two arguments (modelled as cmp : ver -> ver -> option Z, None = error); nothing else is assumed about it",
               "a capability is identified by its pointer (integer id / position in the object list in the model); the same pointer registered twice has the same ranges; "
               "the description never takes part in an answer",
               "the zero value DefaultVersion{} (nil map: SetCapability panics) is outside the property; it is only compared with the model",
               "DefaultVersion's map is modelled as the list of SetCapability calls, newest first",
               "the independent semantic-version ordering is only claimed for MAJOR.MINOR.PATCH[-pre][+build] without leading zeros and numbers below 2^63; "
               "github.com/hashicorp/go-version itself is outside the property (the comparer is a parameter)"]
LEVEL_TEXT = ("Machine-checked theorems for every comparer, every version and every list of capabilities: contains is interval membership with inclusive lower, "
              "exclusive upper and missing bounds unbounded (C19_contains); Target.Version succeeds exactly when all evaluated ranges are ok (C19_ok_iff) and then "
              "Has = 'lies in at least one range' (C19_has_exact); capabilities without ranges are never reported (C19_no_ranges); for well-formed input the outcome "
              "is invariant under permutations of ranges and capabilities (C19_order_independent); an inverted / zero-width range or a failing comparison that is "
              "evaluated yields the corresponding error (C19_error_when_evaluated, C19_bad_ranges); NewCapability pairs its arguments (C19_pairing); the default "
              "comparer's regenerated matrix agrees with an independent semver ordering on the grid (C19_default_comparer_on_grid). The model is compared with the Go "
              "code on every run.")
LEVEL_NOTE = ("Trusted: Coq kernel, the hand-written model (validated by correspondence on ~35k cases x 70 versions per quick run), the Go harness, extraction and the "
              "OCaml driver. No axioms; the comparer is a section variable without any assumption.")
import re
def nontrivial(c):
    if c[0] == "9":
        return True
    if c[0] == "2":
        return " " in c[1]
    if c[0] in ("4", "7"):
        return re.search(r"\$[0-9a-f.]* \(\(?\d", c[1]) is not None
    if c[0] in ("5", "6"):
        return True
    return re.search(r"\(\d+ \(\d", c[1]) is not None
