from props._rx import *
ID = "C14"
DRIVE_ARGS = ["-prop", "C14"]
PROOF_VO = ["theories/C14/Props.vo"]
PROPS_V = "theories/C14/Props.v"
DESIGN_REF = "DESIGN.md section 5, C14"
TECHNIQUE = ("Coq proof that the packets read from the first k bytes of a stream are a maximal prefix of the stream's packets followed by the failure (for every k, every partition into reads), and that the channel "
             "never synthesises a DONE without an end-of-message packet + correspondence with the real reader goroutine on a scripted net.Conn that fails at every byte offset")
RULE = ("responses as in C02, packetised, written to a scripted net.Conn that delivers the first k bytes (EVERY offset k = 0..len for bounded responses, random read sizes) and then fails with EOF / a reset style error / "
        "a timeout style error; the real reader goroutine runs; the sequence of NextPackage results up to the first error and the elapsed time are compared with the model's prefix. "
        "Drain API: the same failure offsets with a consumer that reads up to the final DONE (NextPackageUntil without callback): one success per final DONE completely received, then the transport error, never the end-of-response signal (fn 17). "
        "Write side: a package is sent through a transport that accepts k bytes and then fails (every k for short messages): error iff k < wire length, accepted bytes = prefix of the model's wire. "
        "Non-trivial = input longer than 40 characters; distinct by input. Failing writes also on a connection whose read side has ended before (peer closed the idle connection, the reader has filled the connection's error queue): the failing write must still return at once (write-fail;reader-ended).")
ASSUMPTIONS = ASSUMPTIONS_COMMON + ["elapsed time until the error is observed by the harness against the configured read timeout (bounded wait), not proved",
                                    "failure during a request write: the tx model (C01) gives the complete wire; the harness checks on the real Channel that the send reports an error exactly when the failure falls inside the message and that what the transport accepted is a prefix of that wire (fn 13); no separate theorem"]
LEVEL_TEXT = ("C14_prefix_then_failure / C14_every_complete_packet: for EVERY stream and EVERY failure offset the reader yields exactly the packets completely contained in the bytes received, then the failure; "
              "C14_channel_prefix: the consumer's packages are a prefix of the complete response's; C14_no_spurious_final_done: without an EOM packet no DONE is synthesised, whatever the bytes. "
              "Partial: the time bound is observed on the real code, not proved.")
LEVEL_NOTE = "Trusted: Coq kernel; hand-written transport/rx models (validated by correspondence on every run); Go harness with scripted net.Conn; extraction + driver. Timers are observed, not modelled."
def nontrivial(c):
    return len(c[1]) > 40
