from props._login import *
ID = "C08"
DRIVE_ARGS = ["-prop", "C08"]
PROOF_VO = ["theories/C08/Props.vo"]
PROPS_V = "theories/C08/Props.v"
DESIGN_REF = "DESIGN.md section 5, C08"
TECHNIQUE = "Coq proof that the step-by-step login model succeeds exactly on the declarative acceptance language (both flows, every delivered package stream and error count) + correspondence with Channel.Login against a scripted peer"
RULE = ("the valid reply script of both flows and EVERY single edit of it (delete / duplicate / swap / replace by / insert each of 15 other packages at every position, merged / missing / empty rounds), "
        "field edits (acknowledgement status, message id and status, DONE status bits, parameter count, parameter types and values, NULL parameters, capability masks incl. all-zero / missing / one-entry masks, "
        "packet size announcements), key variants (512..2048 bit, other PEM block type, truncated, trailing bytes, garbage, empty, bad DER), nonce lengths 0..100, random multi-edit scripts, unsupported modes; "
        "each under one of three packetisations, random configurations with 0..3 remote servers. One case = one Channel.Login call against the scripted peer. Non-trivial = every case (each is a whole login); distinct by input.")
ASSUMPTIONS = ASSUMPTIONS_COMMON
LEVEL_TEXT = ("C08_plain_success_iff / C08_encrypted_success_iff: for EVERY delivered package stream, error count, key oracle and configuration the step-by-step model of login.go succeeds exactly on the "
              "declarative acceptance language; C08_login_success_iff lifts this to the reply PACKETS (any packetisation, any bytes) through the rx model; C08_post: after success the connection has the server's "
              "capabilities and the announced packet size. Every non-accepting reply sequence therefore ends in an error (LRejected, or LCtx when the wait ends with the caller's context). "
              "Partial: 'never a wait that outlives the context' and 'never a crash' are observed on the real code (watchdog, recovered panics), the model has no blocking state other than LCtx.")
LEVEL_NOTE = "Trusted: Coq kernel; hand-written login/rx/tx/package models (validated by correspondence on every run); Go harness and standard-library crypto as key oracle; extraction + driver."
def nontrivial(c):
    return True
