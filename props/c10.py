ID = "C10"
GO_CMD = "login"        # its -gen writes both generated tables; the cases come from pkgs, rx and login (see drive)
GEN = ["Gen/GenPkg.v", "Gen/GenLogin.v"]
GROUPS = "core,b1,b2"      # generator groups whose models are integrated in Pkg/All.v
DRIVE_ARGS = ["-prop", "C10", "-groups", GROUPS]
MODEL_VO = ["theories/Login/Spec.vo"]
PROOF_VO = ["theories/C10/Props.vo"]
PROPS_V = "theories/C10/Props.v"
EXTRACT = "extract/Login.v"
DEPS = ["Pkg", "Rx", "C01", "C15", "Login"]
DESIGN_REF = "DESIGN.md section 5, C10"
TECHNIQUE = "Coq proof of panic-freedom of every package decoder (combinator closure) + exhaustive GoValue sweep tabulated from the code + malformed-input correspondence"
RULE = ("malformed input after every known token: valid encodings with the total-length / count fields off by one, mutated bytes, truncated and extended bodies, "
        "arbitrary random bytes; params/rows: every variable-length data type with EVERY data length 0..255 through the package reader, mutated length bytes, rows without format; "
        "value level: GoValue for all 256 type codes x lengths 0..255 executed while tabulating (table dt_panics must be empty). Panics are recovered and reported as class -1; "
        "the result class is compared with the model's. Non-trivial = at least 3 bytes of input; distinct by (token, bytes, context). Channel / packet level: malformed streams (mutated responses, arbitrary bytes, every header field incl. length < 8 and header-only packets) are fed to the real Channel.WritePacket and the packet reader; a panic is recovered and reported as event (7 -1), which the model never produces. Login: Channel.Login against a scripted peer whose key parameter is not a key at all (control characters, white space, PEM armour without content, cut or mutated keys, random bytes), field edits and multi-edits of the encrypted reply script (fn 32: the call must return, class 0/1/2). Disorder streams: well-formed packages in an order no server sends (format of one family followed by data packages of the other, data without any format, format last, shuffles), continued after the first error.")
TRUSTED = ["Coq 8.16.1 kernel + vm_compute", "hand-written decoders in coq/theories/Pkg (tied by correspondence)",
           "tables re-tabulated from the code (Gen/GenPkg.v)", "harness/pk, tds/verif_hooks.go, ocaml/driver.ml, extraction (ExtrOcamlBasic)"]
ASSUMPTIONS = ["heap usage of the Go runtime is not modelled: the model bounds what a read can return (C10_take_bounded, C15_read: never more than the bytes received)",
               "BLOB field data is not modelled"]
LEVEL_TEXT = ("C10_package_parsers_never_panic: for every registered package kind, every context and EVERY byte string the decoder yields a value, not-enough-bytes or an error (from "
              "the combinator closure); C10_govalue_sweep_no_panic: the exhaustive (type, length) sweep of GoValue executed on this run hit no panic; C10_take_bounded: a read returns at "
              "most the bytes received. The model's outcome class is compared with the implementation's on ~20k malformed inputs per quick run. Partial: real heap growth is observed, not proved.")
LEVEL_NOTE = "Trusted: Coq kernel; hand-written decoders validated by correspondence; Go harness; extraction + driver. Packet reader / channel level malformed input is covered by the rx model (C02/C14)."
def nontrivial(c):
    return len(c[1]) > 12

from props._multi import drive_multi
def drive(check, exe_go, race_exe, tier, seed, path, env):
    return drive_multi(check, [("pkgs", DRIVE_ARGS), ("rx", ["-prop", ID]), ("login", ["-prop", ID])], tier, path, env)
