from props._login import *
ID = "C09"
DRIVE_ARGS = ["-prop", "C09"]
PROOF_VO = ["theories/C09/Props.vo"]
PROPS_V = "theories/C09/Props.v"
DESIGN_REF = "DESIGN.md section 5, C09"
TECHNIQUE = "Coq proof that the step-by-step login model succeeds exactly on the declarative acceptance language (both flows, every delivered package stream and error count) + correspondence with Channel.Login against a scripted peer"
RULE = ("the valid reply script of both flows and EVERY single edit of it (delete / duplicate / swap / replace by / insert each of 15 other packages at every position, merged / missing / empty rounds), "
        "field edits (acknowledgement status, message id and status, DONE status bits, parameter count, parameter types and values, NULL parameters, capability masks incl. all-zero / missing / one-entry masks, "
        "packet size announcements), key variants (512..2048 bit, other PEM block type, truncated, trailing bytes, garbage, empty, bad DER), nonce lengths 0..100, random multi-edit scripts, unsupported modes; "
        "each under one of three packetisations, random configurations with 0..3 remote servers. One case = one Channel.Login call against the scripted peer. Non-trivial = every case (each is a whole login); distinct by input.")
ASSUMPTIONS = ASSUMPTIONS_COMMON
LEVEL_TEXT = "filled in with the theorems"
LEVEL_NOTE = "Trusted: Coq kernel; hand-written login/rx/tx/package models (validated by correspondence on every run); Go harness and standard-library crypto as key oracle; extraction + driver."
def nontrivial(c):
    return True
