from props._login import *
ID = "C09"
DRIVE_ARGS = ["-prop", "C09"]
PROOF_VO = ["theories/C09/Props.vo"]
PROPS_V = "theories/C09/Props.v"
DESIGN_REF = "DESIGN.md section 5, C09"
TECHNIQUE = "Coq proof of non-interference of the login's writes and outcome in the secrets (data-flow over the tx model, RSA-OAEP abstract) + correspondence with Channel.Login against a scripted peer that owns the private key"
RULE = ("encrypted logins with random user/host/app names, passwords of any bytes and lengths 0..key capacity+2 (incl. passwords equal to the user name or contained in the application name), 0..3 remote servers, "
        "nonces of 0..64 bytes, keys of 1024 (thorough: ..2048) bits, valid / packet-size-changing / multi-edited / rejected reply scripts, three packetisations: every packet the client writes is captured by the peer; "
        "ciphertext spans are decrypted with the private key and blanked; the rest is compared with the model run on the blinded configuration; error text searched for distinctive passwords; control: plain-flow logins (password found in its slot), "
        "modes below ENCRYPT4 (nothing written). One case = one login. Non-trivial = every case; distinct by input. Default configuration: tds.NewLoginConfig on all 2^10 combinations of the settings of a connection description (TLS enforced, validation skipped, debug logging, port, network, host, timeouts, database; lg.InfoOf) - the Encrypt mode of each as a case (fn 33) and as the regenerated table g_default_encrypt; 40 (quick) / 1024 (thorough) complete logins run with such a default configuration while the case records ENCRYPT4.")
ASSUMPTIONS = ASSUMPTIONS_COMMON
LEVEL_TEXT = ("C09_noninterference: for every key oracle, encryption function, reply sequence and any two configurations that agree up to the contents of the secrets, equal ciphertexts imply equal bytes on the wire "
              "(every byte written is a function of public data and of enc(nonce ++ secret) only); C09_outcome_independent_of_secrets: result class, capabilities, packet size are those of the blinded configuration; "
              "C09_second_message_shape: the secrets travel as enc(nonce ++ secret) - password, every remote password, session key; C09_record_slots_empty + C09_first_message: the record on the wire has empty password slots; "
              "C09_control_plain_password: the plain flow does carry the password (control). The harness decrypts the ciphertexts with the private key (nonce ++ secret, pairwise distinct, fresh 32-byte session key) and compares all "
              "other bytes with the model run on the blinded configuration. Cryptographic strength of RSA-OAEP / crypto/rand is outside the model. C09_default_config_encrypts / _table_complete: every row of the regenerated table of NewLoginConfig (all 1024 kinds of connection description) asks for password encryption.")
LEVEL_NOTE = "Trusted: Coq kernel; hand-written login/rx/tx/package models (validated by correspondence on every run); Go harness and standard-library crypto as key oracle; extraction + driver."
def nontrivial(c):
    return True
