from props._rx import *
ID = "C02"
DRIVE_ARGS = ["-prop", "C02"]
PROOF_VO = ["theories/C02/Props.vo"]
PROPS_V = "theories/C02/Props.v"
DESIGN_REF = "DESIGN.md section 5, C02"
TECHNIQUE = ("Coq proof of fragmentation independence of the parse-or-rollback loop for EVERY cut set (induction over the chunks, from the 'streamable' contract of every package decoder) "
             "and of the packet reader for EVERY partition into reads + correspondence of both models with Channel.WritePacket and the real Conn.ReadFrom goroutine")
RULE = ("responses generated from a grammar over all server-side package types (formats over all data types, rows/params, EED, ENVCHANGE, DONE variants, cursor/dynamic/… packages): "
        "one packet; EVERY single cut; EVERY pair of cuts of short responses; all 2^(n-1) cut sets of very short ones; random many-cut and fixed-size packetisations incl. 1-byte bodies and "
        "header-only packets; each packetisation is fed to the real Channel (events per packet compared with the model's); transport: the byte stream is handed to the real reader goroutine in "
        "1-byte reads, random reads and reads splitting headers, the packages delivered through NextPackage are compared with the model's. One case = one packetisation/read script; "
        "non-trivial = more than one packet or read; distinct by input. Further: packetisations with EMPTY (header-only) packets at any place - before, between and after the packets of a response, directly before rows / parameters or inside a package (cut-ho); Channel.Reset() between packets (fn 14).")
ASSUMPTIONS = ASSUMPTIONS_COMMON + ["C02_fragmentation_independent assumes the one-packet run raises no parse error (responses of a server are parseable); erroneous streams are compared case by case (C10)"]
LEVEL_TEXT = ("C02_fragmentation_independent: for every message, every channel state at a message boundary, any number of hooks and EVERY non-empty chunking, the events (deliveries with field "
              "values, hook calls, synthetic DONE) and final state equal those of the single packet. C02_transport_independent / _partitions_agree: for EVERY partition of a byte stream into reads the "
              "reader yields the same packets. C02_nothing_invented: exactly the parsed packages' events plus at most one synthetic final DONE. The models are compared with the implementation on every run. C02_header_only_packet_transparent / _state: a header-only packet at ANY place of ANY packet sequence is reported by its own marker and leaves the events of all other packets and the channel state unchanged.")
LEVEL_NOTE = "Trusted: Coq kernel; hand-written rx/transport models and package decoders (validated by correspondence on every run); Go harness; extraction + driver. Goroutine scheduling is observed, not modelled."
def nontrivial(c):
    return len(c[1]) > 60
