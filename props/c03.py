from props._rx import *
ID = "C03"
DRIVE_ARGS = ["-prop", "C03"]
PROOF_VO = ["theories/C03/Props.vo"]
PROPS_V = "theories/C03/Props.v"
DESIGN_REF = "DESIGN.md section 5, C03"
TECHNIQUE = ("Coq proof over histories: every complete message ends with exactly one final DONE and restores the message-boundary invariant (induction over the parsed packages); "
             "the consumer model (NextPackage / NextPackageUntil) consumes exactly one response, also when the callback fails at any package + correspondence with the real Channel over multi-round histories")
RULE = ("histories of 1..6 request/response rounds on one channel (response shapes: empty, rows, several result sets with DONE(MORE), trailing DONE with COUNT/PROC/ERROR bits or missing, EED interleaved; "
        "random packetisation per round) fed to the real Channel, events compared with the model's per packet; consumer cases: the queue is filled with 1..3 responses and NextPackageUntil is called with "
        "nil / continuing / io.EOF-returning / failing callbacks stopping at every position; results, errors, EED lists and what is left in the queue are compared. Non-trivial = input longer than 80 characters; distinct by input. Callbacks answer their error with false or true beside it ((true, error), (true, io.EOF)): the error decides.")
ASSUMPTIONS = ASSUMPTIONS_COMMON + ["the tx side of a round (Reset / SendRemainingPackets) is covered by C01's model; the rx theorems are about the responses"]
LEVEL_TEXT = ("C03_message_final_done: for every message received at a message boundary, its deliveries are followed by the synthetic final DONE exactly when the last one is not a final DONE (also for "
              "messages delivering nothing), nothing stays buffered and the boundary invariant holds again, so the statement composes over every history. C03_drain_exactly_one_response / "
              "C03_callback_error_drains: the consumer consumes exactly the current response for every response shape and every abort point. Both models are compared with the implementation on every run.")
LEVEL_NOTE = "Trusted: Coq kernel; hand-written rx/consumer models (validated by correspondence on every run); Go harness; extraction + driver. Blocking/timeouts of NextPackage are observed, not modelled."
def nontrivial(c):
    return len(c[1]) > 80
