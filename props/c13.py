ID = "C13"
GO_CMD = "c12"
DRIVE_ARGS = ["-prop", "C13"]
GEN = []
MODEL_VO = ["theories/C13/Spec.vo"]
PROOF_VO = ["theories/C13/Props.vo"]
PROPS_V = "theories/C13/Props.v"
EXTRACT = "extract/C13.v"
DEPS = []
DESIGN_REF = "DESIGN.md section 5, C13"
DRIVE_TIMEOUT = 3000
WIDEN = False
TECHNIQUE = "placeholder"
RULE = "placeholder"
TRUSTED = ["placeholder"]
ASSUMPTIONS = ["placeholder"]
LEVEL_TEXT = "placeholder"
LEVEL_NOTE = "placeholder"


def nontrivial(c):
    return True
