ID = "C13"
GO_CMD = "c12"
DRIVE_ARGS = ["-prop", "C13"]
GEN = []
MODEL_VO = ["theories/C13/Spec.vo"]
PROOF_VO = ["theories/C13/Props.vo"]
PROPS_V = "theories/C13/Props.v"
EXTRACT = "extract/C13.v"
DEPS = []  # (C13/Closers.v is also used by C12)
DESIGN_REF = "DESIGN.md section 5, C13"
DRIVE_TIMEOUT = 3000
WIDEN = False
TECHNIQUE = ("Coq: NextPackage as the SET of its possible results (theorems over every queue content / arrival list), the send loop with its context checks, and an "
             "interleaving system of reader goroutine, closing goroutine, peer answer and logout timeout with Go's RWMutex (pending writer blocks readers) and bounded queues: "
             "lock discipline as an invariant of EVERY step, progress + a strictly decreasing measure => Close returns in every schedule under explicit hypotheses; the "
             "cases the full statement fails on are refuted by stuck-state witnesses (vm_compute) and listed as known findings; a second system of n closers of ONE channel "
             "(counting invariant over every schedule: exactly one performs the teardown); a third system sender (two read-lock sections) / closer (C13/SendClose.v: invariant + progress + measure over every schedule); "
             "+ scripted schedules on the real Conn/Channel with watchdogs, the model predicting every observation")
RULE = ("cap = ChannelPackageQueueSize = 4 (also 1; thorough: 1, 2, 8 in the fill-level families); kind = channel 0 / a logical channel (real setup handshake); cancellation modes: own ctx, Conn's ctx, parent of the Conn's ctx, expired deadline. "
        "fn 1: 0..cap+3 packages fed (reader parked on the full queue above cap), context cancelled BEFORE the calls, nfed+2 NextPackage(wait) calls, each in a settled state: 104 cases. "
        "fn 2: NextPackage started on an empty queue, then cancellation and 0/1/3/cap+2 arriving packets race (order cancel-feed / feed-cancel / concurrent), wait true/false, then "
        "further calls: the recorded results are judged (96 quick, 1920 thorough). fn 3: NextPackageUntil (nil callback / always continue / stop at 2nd / callback failing at its 1st or 2nd package, "
        "which makes the library consume the rest of the response) with 0..cap queued, with and without a final DONE: 270 cases. fn 4: SendPackage / QueuePackage+SendRemainingPackets / SendRemainingPackets of a queued partial packet with a cancelled "
        "context, 1..3 packets, and cancellation WHILE transport write 0/1/2 of 4 is held back by the transport: 96 cases; output = results + writes after cancellation. "
        "fn 5: Close (channel / via Conn.Close) with 0/1/cap packages queued, then every API call (NextPackage x2, NextPackageUntil x2, Queue/SendRemaining/SendPackage, Close, "
        "Reset, Logout, Close), transport writes afterwards, 0/3 late packets for the closed channel. fn 6: response abandoned after 0/1/3 of 0..cap+3 packages, then Close; "
        "peer answers the logout at once / after 300 ms / (thorough) never - bounded by the documented minute + 15 s. fn 8: the same on channel 0 above cap+1 undelivered (outcome "
        "schedule dependent, recorded in the input). fn 9: Close / Conn.Close while another goroutine waits in NextPackage with a live context, and with the context cancelled "
        "50 ms later. fn 7: Conn.Close with 0/1/2/5 channels with 0..cap packages queued, healthy transport / failing 1, 3, 9, 10 times / failing for good, also AFTER the connection context (or its parent) was cancelled; output: returned, "
        "every channel reports closed, transport closed, reader goroutine returned, goroutine count back to the count before the connection was made. "
        "fn 11 packets for a closed channel: channel 0 / a logical channel closed by Channel.Close or Conn.Close, then packets of every kind - header-only (length 8) of types PROTACK, CLOSE, NORMAL, RESPONSE, SETUP with and "
        "without EOM, packets with a complete / a partial package with and without EOM - each alone and all 14 in a row, handed to Channel.WritePacket directly and sent through the reader goroutine (connection error queue emptied after "
        "each): 86 cases; output: every call returned / the reader idle again, queue lengths, ids reported invalid, NextPackage result, Conn.Close returned, reader ended. fn 12 the same packet kinds in the WINDOW: a consumer waits in "
        "NextPackage on logical channel 1, Close / Conn.Close has sent the teardown and waits for the write lock, the packet arrives and the reader (channel still registered) queues in WritePacket's RLock behind the pending writer "
        "(both parked states seen in the goroutine dump), the consumer's context is cancelled: 20 cases. fn 10 concurrent closers (as C12 fn 5): 2..3 goroutines in Channel.Close of one logical channel, Conn.Close among them, the "
        "transport holds the teardown packets until every closer is parked in the write or has returned: 24 cases, GOMAXPROCS 1/4. "
        "fn 13 close-during-send: SendPackage of a message of 1/2/3 packets (packet size 64 and 512) on a logical channel, the transport holds back the k-th Write of the message "
        "(k = 1..packets, i.e. the sender is inside QueuePackage's or SendRemainingPackets' read-lock section), then Channel.Close or Conn.Close (channel 0 open as well, its logout answered "
        "at once / after 300 ms / thorough: never) is started from another goroutine; the Write is released once Close is seen parked in Lock() (goroutine dump; variant: the peer's "
        "acknowledgement of the teardown arrives meanwhile and the reader queues behind the pending writer) or immediately (the observed order is part of the input): 90 cases; output: "
        "Close returned + code, SendPackage returned + code, packets of the message written, NextPackage / SendPackage / Close afterwards, unregistered, transport closed, Conn.Close returned, "
        "reader ended; bound 2.5 s per call, a scenario cut by its own watchdog is the observable (-2). "
        "Watchdogs: a call that must return gets 4 s, the known blocking scenarios are observed for 3 s; only booleans reach the case file. Distinct by (fn, input).")
TRUSTED = ["Coq 8.16.1 kernel + vm_compute (no native_compute)",
           "hand-written models coq/theories/C13/Model.v + C13/Closers.v + C13/SendClose.v of SendPackage's two lock sections /  NextPackage / NextPackageUntil / sendPackets / WritePacket / Close / Conn.Close / Conn.ReadFrom (tied by this correspondence: "
           "every scenario's observations are predicted by the model)",
           "harness/cmd/c12 (in-memory transport with held writes and scripted failures, peer answering setup and logout, settle detection by byte accounting, watchdogs), "
           "tds/verif_hooks.go (VerifNewConn, VerifCancel, VerifQueueLens, VerifErrChLen, VerifNextErr, VerifSetPacketSize), ocaml/driver.ml, extraction with ExtrOcamlBasic only"]
ASSUMPTIONS = ["sync.RWMutex as Go implements it: a pending Lock blocks new RLocks, Lock is granted when no reader is left; buffered channels are FIFOs, a send on a full one blocks; "
               "select picks any ready case (the result SET contains every ready case)",
               "real time is not in the model: 'promptly' / 'bounded time' are observed as 'returned within 4 s' (blocking scenarios: 'not within 3 s'); the logout's one-minute context "
               "is a move that is always possible (LLogoutTimeout); goroutine leaks are observed through the reader goroutine's return and runtime.NumGoroutine",
               "the reader/closer system has ONE closing goroutine and one channel; Conn.Close over several channels is their sequential composition (observed with up to 5 channels); "
               "several closers of one channel are a system of their own (C13/Closers.v: n instances of the same program on a logical channel, no long-term read-lock holders, the closers' own "
               "RLock/check/RUnlock is one step); concurrent Close of channel 0 (two logouts competing for one answer) is not modelled and not provoked",
               "a closer that loses the compare-and-swap returns ErrChannelClosed while the winner may still be at work: 'after a channel is closed every call reports the closed condition' is judged once "
               "every closer has returned; C13 does not judge the teardown packets' numbers (C12 does)",
               "a Read that fails with io.EOF together with a complete packet (CLOSE packets) is not modelled: transport reads yield a packet or a non-EOF error",
               "with errors queued on the connection or the channel NextPackage may return such an error instead of the context's error (select): C13_cancel assumes none queued, "
               "C13_cancel_never_blocks holds regardless; with wait=false ErrNoPackageReady is a possible answer also under a cancelled context (the spec accepts it)",
               "known finding close-blocks-on-full-rx-queue: demonstrated deterministically on logical channels (id > 0); on channel 0 the logout first takes a package and wakes the "
               "parked reader, after which Lock() races with the reader parking again: the outcome is schedule dependent and recorded in the input (fn 8) - a return is judged OK, "
               "a hang is matched by the known finding",
               "known finding close-waits-for-consumer: deterministic for a logical channel and for Conn.Close; on channel 0 (thorough tier) the peer never answers so that the "
               "logout's own wait (up to the documented minute) does not race with the consumer for the answer",
               "known finding reader-parked-on-full-conn-errch: with a channel 0 open its logout takes one error out of the queue and the woken reader may see the cancelled "
               "context first (schedule dependent): the scenarios close channel 0 beforehand or have no channel"]
LEVEL_TEXT = ("Machine-checked over every queue content and every schedule of the modelled steps: C13_cancel_never_blocks / C13_cancel - with a done context NextPackage has no blocking "
              "result and (no error queued) every result is the first queued / first arriving package or the context's error; C13_cancel_until_callback / _drain - NextPackageUntil ends "
              "with a shown package, the response end or the context's error; C13_send_cancelled / C13_send_prefix - a context done at the start: no packet written; in general exactly the "
              "packets in front of which the contexts were live; C13_after_close - every receive / send / Close call reports closed, under every schedule the channel stays closed, its "
              "queue only loses packages and the reader is never at a send to it (which would block for ever on the nil channel), WritePacket of a closed channel is lock / check / unlock for ANY packet "
              "(header-only or with a body); C13_reader_free_after_close - a closed channel never holds the reader up; C13_concurrent_close - EVERY schedule of n+1 closers of one channel: no panic, "
              "at most one teardown packet, teardown started at most once, no deadlock, at most 10 moves per closer, at the end exactly one winner and n times ErrChannelClosed (C13_concurrent_close_unguarded_refuted / "
              "_unchecked_refuted: without the compare-and-swap two teardown packets, without the re-check under the write lock as well the second closer panics); C13_conn_close + C13_reader_guard - after Conn.Close returned: channel closed and unregistered, context done, transport closed, reader's loop guard "
              "false; C13_reader_ends_partial (error queue has room) vs C13_reader_ends_refuted (full queue: stuck for ever); C13_close_terminates_partial - no goroutine outside holds the read "
              "lock for good and the queue has room for what may still come => in every reachable state somebody can move until Close returned, and every run has at most measure(init) moves; "
              "the full statement is refuted by C13_close_terminates_refuted (reader parked on a full queue) and C13_close_waits_for_consumer_refuted (consumer parked in NextPackage), both known "
              "findings; C13_close_after_consumer_cancel; C13_close_during_send_terminates - sender = two consecutive read-lock sections (QueuePackage, SendRemainingPackets) of any "
              "number of packets, closer = Lock/closed/Unlock: under EVERY schedule the lock discipline holds, nobody is stuck before both returned, at most a+b+17 moves, at the end closed, mutex free, "
              "Close nil, SendPackage nil or ErrChannelClosed (C13_close_during_send_recursive_refuted: with the read lock held around both sections a schedule ends in a state that no move leaves). PARTIAL: real time, goroutine leaks and data races are observed with watchdogs / goroutine counts, not proved.")
LEVEL_NOTE = ("Level: proof over all schedules of the modelled steps + every harness observation predicted by the model; three known findings (KNOWN-FINDING lines) reproduced by "
              "dedicated scenarios and exhibited by the model as refuted witnesses. Trusted: Coq kernel, the hand-written model, harness + verif hooks, extraction + OCaml driver. No axioms.")


def nontrivial(c):
    # every scenario exercises the mechanism except the degenerate "nothing queued, nothing arrives, no channel" ones
    return not (c[0] == "7" and c[1].startswith("(0 ")) or "reader-parked" in c[3]
