ID = "C15"
GO_CMD = "c15"
MODEL_VO = ["theories/C15/Spec.vo"]
PROOF_VO = ["theories/C15/Props.vo"]
PROPS_V = "theories/C15/Props.v"
EXTRACT = "extract/C15.v"
DESIGN_REF = "DESIGN.md section 5, C15"
TECHNIQUE = "Coq refinement proof (concrete packet queue -> flat FIFO / write layout) + model-vs-implementation correspondence on operation histories with full state views"
RULE = ("fn 2: every rx history (Add 0..3 bytes / Bytes 0..3 / Uint8 / Uint16 / Read / Discard / Reset / save-read-restore) up to length 4 "
        "(5 thorough) exhaustively + random histories to length 60, observables compared with the flat-FIFO spec and the model; "
        "fn 4: the same with Position() / SetPosition() as operations of their own, so that a restore may come any number of operations after the save (e.g. after further "
        "packets were enqueued): every history up to length 5 (6 thorough) over a small alphabet + random ones, compared with a tape (bytes, cursor, saved cursor); "
        "fn 1: random mixed histories (writes with changing packet size 9..600, AddPacket, reads, typed reads, Read, Discard, Reset, "
        "SetPosition to saved/stale positions, negative lengths), per step observable AND full internal state (verif hook) compared with the model; "
        "fn 3: writes at all boundary lengths k*(ps-8)+d for the boundary packet sizes (all 9..600 thorough), every/random call splits, packet size "
        "changes between writes, then rewind and Bytes(n) for n around the written length; layout compared with an independent reference. "
        "Non-trivial = at least one packet boundary is crossed or at least 2 operations; distinct by (fn, input).")
TRUSTED = ["Coq 8.16.1 kernel + vm_compute (no native_compute)",
           "hand-written model coq/theories/C15/Model.v of tds/packetQueue.go (tied by this correspondence check)",
           "harness/cmd/c15, tds/verif_hooks.go (VerifState), ocaml/driver.ml, extraction with ExtrOcamlBasic only"]
ASSUMPTIONS = ["encoding/binary little-endian decoding is modelled (le_of_bytes)",
               "Go slice-bounds panics are modelled as the outcome 'panic' (positions outside the queue)",
               "the queue's own mutex is not modelled: single-goroutine histories only"]
LEVEL_TEXT = ("Machine-checked theorems over ALL operation histories and sizes: reads return exactly the unread bytes across packet boundaries "
              "(C15_read), failed reads roll back exactly (C15_rollback), discard keeps every unread byte (C15_discard), every rx history is a flat "
              "FIFO (C15_fifo, induction over the history), writes append exactly the written bytes in completely filled packets of the size in force "
              "(C15_write, also with the size changing between writes), written bytes read back (C15_write_rewind_read); the part of the property that is "
              "false of the code (read past written data returns zero padding) is stated as C15_pastwrite_refuted and listed as a known finding. "
              "The model is compared with the Go PacketQueue step by step including its internal state.")
LEVEL_NOTE = ("Trusted: Coq kernel, the hand-written model (validated by correspondence on ~64k histories per quick run), Go harness + verif hook, "
              "extraction and OCaml driver. No axioms.")
def nontrivial(c):
    return c[1].count("(") > 2
