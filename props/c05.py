ID = "C05"
GO_CMD = "c04"
DEPS = ["C04"]
GEN = ["Gen/GenC04.v"]
DRIVE_ARGS = ["-prop", "C05"]
MODEL_VO = ["theories/C05/Spec.vo"]
PROOF_VO = ["theories/C05/Props.vo"]
PROPS_V = "theories/C05/Props.v"
EXTRACT = "extract/C05.v"
DESIGN_REF = "DESIGN.md section 5, C05"
TECHNIQUE = "tbd"
RULE = "tbd"
TRUSTED = []
ASSUMPTIONS = []
LEVEL_TEXT = "tbd"
LEVEL_NOTE = "tbd"
def nontrivial(c):
    return True
