ID = "C05"
GO_CMD = "c04"
DEPS = ["C04"]
GEN = ["Gen/GenC04.v"]
DRIVE_ARGS = ["-prop", "C05"]
MODEL_VO = ["theories/C05/Spec.vo"]
PROOF_VO = ["theories/C05/Props.vo"]
PROPS_V = "theories/C05/Props.v"
EXTRACT = "extract/C05.v"
DESIGN_REF = "DESIGN.md section 5, C05 and Appendix C"
TECHNIQUE = ("Coq proofs that the model of Bytes/GoValue produces and accepts exactly the reference layouts (written from the TDS 5.0 descriptions over a "
             "reference calendar defined by walking days) + model-vs-implementation correspondence + reference layouts compared with the implementation's bytes and decodes")
RULE = ("same value generators as C04 (see evidence/C04.json rule). fn 1: for (type, length, value) the implementation's Bytes output is compared with the Coq "
        "reference layout_enc, the reference bytes (computed by the harness' own codec with its own civil-date arithmetic, math/big, encoding/binary, and checked "
        "against layout_enc on every case) are decoded by the implementation's GoValue and compared with the value (exact, or to the tick with re-encoding to the same "
        "bytes); on every fn 1 case DataType.Bytes is called TWICE on the SAME Go value object (*Decimal, []byte, string, time.Time, integers, ...) and the "
        "object is rendered before and after: the second outcome must equal the first and the object must be unchanged (third output component (1 1), "
        "compared exactly with the model, which is a function of an immutable value, and demanded by the spec predicate on every case); "
        "fn 4: asetime.TimeToMicroseconds / DurationFromDateTime / DurationFromTime / MicrosecondsToTime / MillisecondToFractionalSecond / "
        "FractionalSecondToMillisecond on the dense days, month boundaries, random microseconds, 2000 random microsecond counts of years 0..9999 and boundary "
        "vectors, compared with the reference calendar (ref_index = number of next_day steps). Documented vectors (1753-01-01 = -53690, 9999-12-31 = 2958463, "
        "2079-06-06 = 65535, money max, bigdatetime 0001-01-01 = 31622400000000, 'abc') are both cases and Coq Examples. "
        "A case is non-trivial when its value is not NULL; distinct by (fn, input).")
TRUSTED = ["Coq 8.16.1 kernel + vm_compute (no native_compute)",
           "reference layouts coq/theories/C05/Layout.v and reference calendar coq/theories/C04/RefCalendar.v (the specification)",
           "hand-written model coq/theories/C04/{GoInt,Calendar,Utf16,Model}.v (tied by this correspondence check), Gen/GenC04.v produced by executing the code",
           "harness/cmd/c04 (canonicalisation of Go values, own reference codec whose output is itself checked against layout_enc), ocaml/driver.ml, extraction with ExtrOcamlBasic only",
           "Go's time package and math/big"]
ASSUMPTIONS = ["float64 tick conversions of asetime replaced by integer formulas in the model (validated by the correspondence run, not proved)",
               "byte order = binary.LittleEndian, the value of the package variable tds.endian (announced in the login record; C06 ties that)",
               "TIME: the nearest REPRESENTABLE tick is the reference (the last half tick of a day saturates at tick 25919999, fix 5c6f973); DATETIME carries into the next day",
               "numeric precision/scale are not on the wire; money scale is 4 by definition of the type"]
LEVEL_TEXT = ("Machine-checked theorems on the C04 domains: enc_value = layout_enc and dec_value (layout_enc v) = v (to the tick for the classic temporal types) for "
              "integers, floats, money, numeric (every integer), unitext (UTF-16LE, all scalar values), char/binary, DATE (every day of years 1..9999), DATETIME, "
              "SHORTDATE, TIME, BIGDATETIMEN, BIGTIMEN; C05_jdn_is_reference (Julian-day expression = reference day number, years 1..9999), "
              "C05_time_to_microseconds, C05_microseconds_to_time (inverse and agreement with the reference), C05_fliegel_all_years (every year >= 1), "
              "C05_ref_index_is_walk (the reference day number is the number of next_day steps), C05_le_word_byte, C05_be_mag_spec; summary C05_model_meets_layout: the model satisfies the executable layout specification on the whole domain; C05_model_pure (the model's fn 1 output carries the "
              "observation 'second encoding = first, value object unchanged' that the specification demands; the implementation is held to it by the exact comparison); "
              "Examples with the documented vectors.")
LEVEL_NOTE = ("Trusted: Coq kernel, the reference layouts/calendar (specification), the hand-written model (validated with 0 mismatches), harness, extraction, driver. No axioms.")
def nontrivial(c):
    return " () " not in c[1]
