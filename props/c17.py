ID = "C17"
GO_CMD = "c17"
GEN = ["Gen/GenC17.v"]
MODEL_VO = ["theories/C17/Spec.vo"]
PROOF_VO = ["theories/C17/Props.vo"]
PROPS_V = "theories/C17/Props.v"
EXTRACT = "extract/C17.v"
DESIGN_REF = "DESIGN.md section 5, C17"
TECHNIQUE = "TODO"
RULE = "TODO"
TRUSTED = []
ASSUMPTIONS = []
LEVEL_TEXT = "TODO"
LEVEL_NOTE = "TODO"
def nontrivial(c):
    return True
