ID = "C17"
GO_CMD = "c17"
GEN = ["Gen/GenC17.v"]
MODEL_VO = ["theories/C17/Spec.vo"]
PROOF_VO = ["theories/C17/Props.vo"]
PROPS_V = "theories/C17/Props.v"
EXTRACT = "extract/C17.v"
DESIGN_REF = "DESIGN.md section 5, C17"
TECHNIQUE = ("Coq proof about an executable model of dsn.ParseSimple/FormatSimple/ParseURI/FormatURI/setValue (strings as code point lists, "
             "Go index/slice expressions as operations that can yield Panic) over tag tables re-tabulated from dsn.TagToField on every run, "
             "+ model-vs-implementation correspondence and an independent specification (declared struct tags) evaluated on the implementation's output")
RULE = ("fn 3/2: FormatSimple and ParseSimple(FormatSimple(v)) for dsn.Info, tds.Info, a test struct with embedded + named struct members and aliases, KeyInfo: "
        "every string member at 45 boundary texts (leading/trailing/multiple spaces, '=' signs, token-like texts, non-ASCII printable), all members at once, "
        "every bool, 15 boundary ints incl. MinInt64/MaxInt64, then random members over the plain alphabet (any strconv.IsPrint code point but quotes and backslash); "
        "fn 4: ParseURI(FormatURI(v)) (round trip through ParseURI, not Parse: FormatURI writes no scheme for these structs, so Parse would take the simple branch) with 43 boundary texts "
        "(% & = ? # / : @ + ; quotes, NUL, newline, astral planes) per string member, the user/password presence matrix (empty user with password etc.), random Unicode strings of all planes; "
        "host from [A-Za-z0-9.-]*, port numeric (FormatURI writes them unescaped); net/url's reading of the produced text is compared with the model's URL record; "
        "fn 6: structured token lists: every declared alias x every quoting style x every boolean / integer / text spelling, later-wins for every pair of aliases of one member "
        "(adjacent, separated, interleaved), unknown keys, the empty key, random token lists into zero and non-zero structs; "
        "fn 5: ParseURI and Parse on hand-written and net/url-written URIs (repeated keys: last value wins, unknown keys, bad escapes, bad ports) and on arbitrary text; "
        "fn 1/5 totality: ALL strings up to length 4 (6 thorough for ParseSimple, 5 for Parse/ParseURI) over the alphabet {' \" space = a b :// ? & % \\ -} on the test struct (keys a, b exist), "
        "length 3 on dsn.Info/tds.Info, 48 hand-picked quote patterns, random strings of 1..40 fragments (keys, quotes, separators). "
        "A panic is recovered and reported as class -1. Non-trivial = the text / member list is non-empty beyond the struct kind; distinct by (fn, input). "
        "URI queries in which two different aliases of one member occur are not generated (result depends on Go map order).")
TRUSTED = ["Coq 8.16.1 kernel + vm_compute/lazy (no native_compute)",
           "hand-written model coq/theories/C17/Model.v of dsn/parse.go, format.go, util.go (tied by this correspondence check); tables Gen/GenC17.v written by harness/cmd/c17 from dsn.TagToField, reflect and strconv.IsPrint",
           "net/url (url.Parse, URL.String, Userinfo, Values.Encode, Query): represented in the proofs by esc/unesc with unesc(esc s)=s and by the URL record; its actual reading of every produced URI is an input of the model run",
           "strconv.ParseBool / ParseInt(s,10,64) / Itoa, fmt %q (strconv.Quote) on printable text without quotes and backslash: modelled from their documentation, compared on every case",
           "harness/cmd/c17, ocaml/driver.ml, extraction with ExtrOcamlBasic only"]
ASSUMPTIONS = ["strings are valid UTF-8; ParseSimple's byte-level Split/Index/last-byte tests only involve ASCII space, '=', quotes, which coincide with the code point level on valid UTF-8",
               "simple form: values outside the documented alphabet (quotes, backslash, non-printable) are not modelled for FormatSimple (%q escapes them) and are outside the property",
               "URI form: host and port must be acceptable to net/url unescaped (FormatURI builds Host by Sprintf); a port such as 'tls' or a struct member named scheme does not round-trip and is outside the property text (user, password, database, additional properties)",
               "URI form: two DIFFERENT aliases of one member in a query (?user=a&username=b) are assigned in Go map order; the property only fixes the last value of a REPEATED key; such queries are not generated",
               "ParseURI requires the tags hostname, port, username, password on string members (reflect panics otherwise, independent of the input string): all struct kinds used satisfy it",
               "int members are 64 bit (GOARCH of the harness)",
               "FromEnv is not driven (same TagToField table and setValue; its only own logic is the key transformation)"]
LEVEL_TEXT = ("Machine-checked theorems about the model, for ALL inputs: C17_simple_roundtrip (ParseSimple(FormatSimple v) = v for all members over the documented alphabet incl. leading/trailing/multiple "
              "spaces and '=' signs, all bools, all int64, every struct kind, any previous content of the target), C17_sequential + C17_later_wins (a space-joined list of quoted/unquoted tokens means "
              "assignment in order, so a later key or alias overrides), C17_unknown_key (error whatever precedes or follows), C17_no_panic (no string makes ParseSimple panic or the model run out of fuel), "
              "C17_tables_agree (TagToField's tables are the declared tags; the empty key matches nothing), C17_uri_roundtrip_partial (FormatURI->ParseURI on dsn.Info for all five texts given unesc(esc s)=s). "
              "The URI round trip for tds.Info / embedding structs is stated (C17_uri_statement) but not proved; it is covered by the correspondence and specification check only.")
LEVEL_NOTE = ("Trusted: Coq kernel, the hand-written model (validated by correspondence on ~135k cases per quick run), net/url and strconv/fmt as named, Go harness, extraction and OCaml driver. No axioms.")
def nontrivial(c):
    return len(c[1]) > 12
