#!/usr/bin/env python3
"""Regenerates MANIFEST.json from props/*.py (each module carries its MANIFEST text)."""
import glob, importlib, json, os, sys
ROOT = os.path.dirname(os.path.abspath(__file__))
sys.path.insert(0, ROOT)
ALL = ["C%02d" % i for i in range(1, 21)]
checks, na = [], []
for pid in ALL:
    path = os.path.join(ROOT, "props", pid.lower() + ".py")
    if not os.path.exists(path):
        na.append(dict(property_id=pid, reason="check not built yet (work in progress; see DESIGN.md section 7)"))
        continue
    m = importlib.import_module("props." + pid.lower())
    checks.append(dict(
        property_id=pid,
        quick_cmd="python3 check.py %s --tier quick" % pid,
        thorough_cmd="python3 check.py %s --tier thorough" % pid,
        evidence_file="evidence/%s.json" % pid,
        replay_cmd_template="python3 check.py %s --replay {path}" % pid,
        engine="coq-proof+correspondence",
        level_claimed=dict(category="proof", text=m.LEVEL_TEXT, design_ref=m.DESIGN_REF),
        level_note=m.LEVEL_NOTE,
        technique=m.TECHNIQUE))
hooks = json.load(open(os.path.join(ROOT, "hooks.json")))
man = dict(version=1,
           setup_cmd="python3 check.py setup",
           hooks=hooks,
           engines=[dict(name="coq-proof+correspondence", path="check.py",
                         serves_properties=[c["property_id"] for c in checks],
                         kind_free_text="Coq 8.16 theorems over hand-written executable Gallina models (coq/theories/Cxx), tables regenerated from /repo by executing the code (coq/theories/Gen), extracted OCaml model + spec predicates run against the Go implementation (harness/) on the same cases")],
           checks=checks,
           notes="See DESIGN.md. known_findings.json lists recorded findings and fix: commits.",
           not_applicable=na)
json.dump(man, open(os.path.join(ROOT, "MANIFEST.json"), "w"), indent=1)
print("MANIFEST.json: %d checks, %d not yet claimed" % (len(checks), len(na)))
