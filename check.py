#!/usr/bin/env python3
"""One entry point for every property check.

  python3 check.py setup                       build everything from files on disk
  python3 check.py <ID> [--tier quick|thorough] [--seed N] [--replay FILE]

Pipeline per property (see DESIGN.md section 1):
  1. build the Go harness command from /repo's working tree (-tags verif)
  2. regenerate the property's Gen/*.v by executing the code (tabulation)
  3. make the model .vo files, extract them to OCaml, build the driver
  4. make the proof .vo files, re-run coqc on Props.v to collect Print Assumptions
  5. run the implementation on generated cases, run model + spec predicates on the same cases
  6. verdict, evidence/<ID>.json, replay files
Exit 0 = property held on everything explored; exit 1 + "VIOLATION property=<id> replay=<path>".
"""
import argparse, fcntl, hashlib, importlib, json, os, re, subprocess, sys, time, glob, shutil

ROOT = os.path.dirname(os.path.abspath(__file__))
BUILD = os.path.join(ROOT, "build")
COQ = os.path.join(ROOT, "coq")
HARNESS = os.path.join(ROOT, "harness")
REPO = "/repo"
ALLOWED_AXIOMS = {
    # standard-library axioms the brief allows, each named in DESIGN.md section 2 if it ever shows up
    "functional_extensionality_dep", "proof_irrelevance", "classic", "JMeq_eq", "Eqdep.Eq_rect_eq.eq_rect_eq",
}
FORBIDDEN = re.compile(r"\b(Admitted|admit|Axiom|Parameter|Conjecture|Admit Obligations)\b|Unset Guard|bypass_check|type-in-type|impredicative-set|Unset Positivity|Unset Universe")

def goenv():
    e = dict(os.environ)
    e.update(GOFLAGS="-mod=mod", GOPROXY="off", GOSUMDB="off", GOTOOLCHAIN="local",
             GOCACHE=os.path.join(BUILD, "gocache"), CGO_ENABLED=e.get("CGO_ENABLED", "1"))
    return e

class Lock:
    def __init__(self, name):
        os.makedirs(BUILD, exist_ok=True)
        self.path = os.path.join(BUILD, name + ".lock")
    def __enter__(self):
        self.f = open(self.path, "w")
        fcntl.flock(self.f, fcntl.LOCK_EX)
    def __exit__(self, *a):
        fcntl.flock(self.f, fcntl.LOCK_UN)
        self.f.close()

def sh(cmd, cwd=None, env=None, timeout=3600, input=None):
    p = subprocess.run(cmd, cwd=cwd, env=env, stdout=subprocess.PIPE, stderr=subprocess.STDOUT,
                       timeout=timeout, input=input, text=True, errors="replace")
    return p.returncode, p.stdout

def log(msg):
    print(msg, flush=True)

# ---------------------------------------------------------------- Go side
def build_go(cmdname, race=False):
    os.makedirs(os.path.join(BUILD, "bin"), exist_ok=True)
    shutil.copyfile(os.path.join(REPO, "go.sum"), os.path.join(HARNESS, "go.sum"))
    out = os.path.join(BUILD, "bin", cmdname + ("-race" if race else ""))
    cmd = ["go", "build", "-tags", "verif"] + (["-race"] if race else []) + ["-o", out, "./cmd/" + cmdname]
    with Lock("go"):
        rc, o = sh(cmd, cwd=HARNESS, env=goenv(), timeout=900)
    return rc == 0, o, out

# ---------------------------------------------------------------- Coq side
def coq_project():
    """(re)generate _CoqProject + Makefile when the set of .v files changed"""
    vs = sorted(os.path.relpath(p, COQ) for p in glob.glob(os.path.join(COQ, "theories", "**", "*.v"), recursive=True))
    text = "-R theories V\n" + "\n".join(vs) + "\n"
    pj = os.path.join(COQ, "_CoqProject")
    old = open(pj).read() if os.path.exists(pj) else ""
    if old != text or not os.path.exists(os.path.join(COQ, "Makefile")):
        open(pj, "w").write(text)
        rc, o = sh(["coq_makefile", "-f", "_CoqProject", "-o", "Makefile"], cwd=COQ)
        if rc != 0:
            raise RuntimeError("coq_makefile failed: " + o)

def coq_make(targets, timeout=3000):
    with Lock("coq"):
        coq_project()
        rc, o = sh(["timeout", str(timeout), "make", "-j16", "-k"] + targets, cwd=COQ, timeout=timeout + 60)
    return rc == 0, o

def coq_assumptions(props_v):
    """re-run coqc on the property file and parse the Print Assumptions output"""
    with Lock("coq"):
        rc, o = sh(["timeout", "900", "coqc", "-R", "theories", "V", props_v], cwd=COQ, timeout=960)
    if rc != 0:
        return False, o, [], []
    closed = len(re.findall(r"Closed under the global context", o))
    axioms = []
    for m in re.finditer(r"Axioms:\n((?:.+\n?)+?)(?=\n|\Z|Closed under|Axioms:)", o):
        for line in m.group(1).splitlines():
            mm = re.match(r"^(\S+)\s*:", line)
            if mm:
                axioms.append(mm.group(1))
    return True, o, closed, sorted(set(axioms))

def hygiene(dirs=None):
    """forbidden constructs in the development; dirs = theory sub-directories the property depends on"""
    bad = []
    files = glob.glob(os.path.join(COQ, "**", "*.v"), recursive=True)
    if dirs is not None:
        keep = set(["Base", "Gen"] + list(dirs))
        files = [f for f in files if os.path.relpath(f, os.path.join(COQ, "theories")).split(os.sep)[0] in keep
                 or os.path.relpath(f, COQ).startswith("extract")]
    for p in files:
        for i, line in enumerate(open(p, errors="replace"), 1):
            code = re.sub(r"\(\*.*?\*\)", "", line)
            if FORBIDDEN.search(code):
                bad.append("%s:%d: %s" % (os.path.relpath(p, ROOT), i, line.strip()))
    return bad

def count_statements(props_v):
    txt = open(os.path.join(COQ, props_v)).read()
    txt = re.sub(r"\(\*.*?\*\)", "", txt, flags=re.S)
    names = re.findall(r"^\s*(?:Theorem|Lemma|Example|Corollary)\s+(\w+)", txt, flags=re.M)
    return names

def extract_dir(extract_v, model_vos):
    """properties that share an extraction file and model share the extracted driver"""
    k = hashlib.sha256(" ".join(sorted(model_vos)).encode()).hexdigest()[:8]
    return os.path.join(BUILD, "ocaml", "x-%s-%s" % (os.path.basename(extract_v)[:-2], k))

def extract_model(pid, extract_v, model_vos):
    """extract the model to OCaml and build the driver, skipped when the .vo inputs are unchanged"""
    d = extract_dir(extract_v, model_vos)
    os.makedirs(d, exist_ok=True)
    h = hashlib.sha256()
    for f in sorted(glob.glob(os.path.join(COQ, "theories", "**", "*.vo"), recursive=True)):
        if any(f.endswith(m.replace("theories/", "")) or os.path.relpath(f, COQ) == m for m in model_vos) or "/Base/" in f or "/Gen/" in f:
            h.update(open(f, "rb").read())
    h.update(open(os.path.join(COQ, extract_v), "rb").read())
    h.update(open(os.path.join(ROOT, "ocaml", "driver.ml"), "rb").read())
    stamp = os.path.join(d, "stamp")
    exe = os.path.join(d, "drive_model")
    if os.path.exists(stamp) and os.path.exists(exe) and open(stamp).read() == h.hexdigest():
        return True, "", exe
    with Lock("ocaml-" + os.path.basename(d)):
        if os.path.exists(stamp) and os.path.exists(exe) and open(stamp).read() == h.hexdigest():
            return True, "", exe
        rc, o = sh(["timeout", "900", "coqc", "-R", os.path.join(COQ, "theories"), "V", os.path.join(COQ, extract_v)], cwd=d)
        # coqc leaves .vo/.glob next to the source; remove them
        for ext in (".vo", ".glob", ".vok", ".vos"):
            p = os.path.join(COQ, extract_v[:-2] + ext)
            if os.path.exists(p):
                os.remove(p)
        if rc != 0:
            return False, o, exe
        shutil.copyfile(os.path.join(ROOT, "ocaml", "driver.ml"), os.path.join(d, "driver.ml"))
        rc, o2 = sh(["ocamlfind", "ocamlopt", "-O3", "-w", "-a", "-package", "str", "model.mli", "model.ml", "driver.ml", "-o", "drive_model"], cwd=d)
        if rc != 0:
            rc, o2 = sh(["ocamlfind", "ocamlopt", "-w", "-a", "model.mli", "model.ml", "driver.ml", "-o", "drive_model"], cwd=d)
        if rc != 0:
            return False, o + o2, exe
        open(stamp, "w").write(h.hexdigest())
    return True, o, exe

# ---------------------------------------------------------------- cases
def read_cases(path):
    cases = []
    with open(path, errors="replace") as f:
        for ln, line in enumerate(f, 1):
            if not line.strip() or line.startswith("%"):
                cases.append(None)
                continue
            parts = line.rstrip("\n").split("\t")
            while len(parts) < 4:
                parts.append("")
            cases.append(parts[:4])
    return cases

def run_model(exe, casefile, timeout=3000):
    """runs the extracted model + spec predicates over the case file; large files are cut into contiguous shards
    that run in parallel (line numbers are mapped back)"""
    try:
        with open(casefile, "rb") as f:
            lines = f.readlines()
    except OSError:
        lines = []
    nshard = max(1, min(14, len(lines) // 1500))
    if nshard == 1:
        rc, o = sh(["timeout", str(timeout), exe, casefile], timeout=timeout + 60)
        outs = [(0, rc, o)]
    else:
        import concurrent.futures
        per = (len(lines) + nshard - 1) // nshard
        jobs = []
        for k in range(nshard):
            part = lines[k * per:(k + 1) * per]
            if not part:
                continue
            path = "%s.shard%d" % (casefile, k)
            with open(path, "wb") as f:
                f.writelines(part)
            jobs.append((k * per, path))
        def one(job):
            off, path = job
            rc, o = sh(["timeout", str(timeout), exe, path], timeout=timeout + 60)
            try:
                os.remove(path)
            except OSError:
                pass
            return off, rc, o
        with concurrent.futures.ThreadPoolExecutor(max_workers=len(jobs)) as ex:
            outs = list(ex.map(one, jobs))
    mism, specf, done, rc_all, o_all = {}, [], None, 0, []
    for off, rc, o in outs:
        rc_all = rc_all or rc
        o_all.append(o)
        d = None
        for line in o.splitlines():
            if line.startswith("MISMATCH "):
                p = line.split(" ", 2)
                mism[int(p[1]) + off] = p[2] if len(p) > 2 else ""
            elif line.startswith("SPECFAIL "):
                specf.append(int(line.split()[1]) + off)
            elif line.startswith("DONE "):
                d = [int(x) for x in line.split()[1:]]
        if d is None:
            done = None
            break
        done = d if done is None else [a + b for a, b in zip(done, d)]
    return rc_all, done, mism, sorted(specf), "\n".join(o_all)

def load_findings(pid):
    p = os.path.join(ROOT, "known_findings.json")
    if not os.path.exists(p):
        return []
    return [f for f in json.load(open(p)).get("findings", []) if f["property"] == pid]

def match_finding(findings, fn, inp, tag):
    for f in findings:
        if f.get("status") != "known":
            continue
        m = f.get("match", {})
        if "fn" in m and str(m["fn"]) != str(fn):
            continue
        if "tag_regex" in m and not re.search(m["tag_regex"], tag):
            continue
        if "input_regex" in m and not re.search(m["input_regex"], inp):
            continue
        return f
    return None

def shorten(s, n=300):
    return s if len(s) <= n else s[:n] + "...(%d chars)" % len(s)

# ---------------------------------------------------------------- main check
def check(pid, tier, seed, replay=None):
    t0 = time.time()
    prop = importlib.import_module("props." + pid.lower())
    os.makedirs(os.path.join(ROOT, "evidence"), exist_ok=True)
    os.makedirs(os.path.join(ROOT, "replays"), exist_ok=True)
    problems = []      # (kind, text) — proof/correspondence breaks
    notes = []
    env = goenv()
    env["VERIF_SEED"] = str(seed)
    env["VERIF_TIER"] = tier

    # 1. Go harness from the working tree
    ok, o, exe_go = build_go(prop.GO_CMD)
    if not ok:
        problems.append(("harness-build", "go build of harness/cmd/%s against /repo failed:\n%s" % (prop.GO_CMD, o[-3000:])))
    race_exe = None
    if ok and getattr(prop, "RACE", False):
        ok2, o2, race_exe = build_go(prop.GO_CMD, race=True)
        if not ok2:
            problems.append(("harness-build", "race build failed:\n" + o2[-2000:]))
            race_exe = None

    # 2. tabulation
    gen_files = getattr(prop, "GEN", [])
    if ok and gen_files:
        args = [exe_go]
        for g in gen_files:
            args += ["-gen", os.path.join(COQ, "theories", g)]
        with Lock("coq"):
            rc, o = sh(args, env=env, timeout=600)
        if rc != 0:
            problems.append(("tabulate", "tabulation failed:\n" + o[-3000:]))

    # 3. model + extraction
    mok, mo = coq_make(prop.MODEL_VO)
    model_exe = None
    if not mok:
        problems.append(("model-build", "model files do not compile:\n" + mo[-3000:]))
        # failing-input search with the model extracted from the last tree on which it compiled: its spec
        # predicates still judge what the implementation does now (mismatches with a stale model are not reported as such)
        stale = os.path.join(extract_dir(prop.EXTRACT, prop.MODEL_VO), "drive_model")
        if os.path.exists(stale):
            model_exe = stale
            notes.append("model files do not compile on this tree; spec predicates evaluated with the previously extracted model")
    else:
        eok, eo, model_exe = extract_model(pid, prop.EXTRACT, prop.MODEL_VO)
        if not eok:
            problems.append(("extract", "extraction/driver build failed:\n" + eo[-3000:]))
            model_exe = None

    # 4. proofs
    names = count_statements(prop.PROPS_V)
    pok, po = coq_make(prop.PROOF_VO)
    closed, axioms, assum_out = 0, [], ""
    if not pok:
        m = re.findall(r'File "([^"]+)", line (\d+)', po)
        where = ", ".join("%s:%s" % (os.path.basename(a), b) for a, b in m[:3])
        problems.append(("proof", "proof obligations of %s no longer check (%s):\n%s" % (pid, where, po[-3000:])))
    else:
        aok, assum_out, closed, axioms = coq_assumptions(prop.PROPS_V)
        if not aok:
            problems.append(("proof", "Props file does not compile:\n" + assum_out[-3000:]))
        bad_ax = [a for a in axioms if a.split(".")[-1] not in ALLOWED_AXIOMS and a not in ALLOWED_AXIOMS]
        if bad_ax:
            problems.append(("proof", "theorems depend on undeclared axioms: " + ", ".join(bad_ax)))
    # thorough tier: independent re-check of the compiled property file and everything it depends on
    coqchk_info = None
    if pok and tier == "thorough" and not os.environ.get("VERIF_NO_COQCHK"):
        mod = "V." + prop.PROPS_V[len("theories/"):-2].replace("/", ".")
        with Lock("coq"):
            rc, co = sh(["timeout", "7000", "coqchk", "-silent", "-o", "-R", "theories", "V", mod], cwd=COQ, timeout=7100)
        m = re.search(r"\* Axioms:(.*?)\n\s*\n\* Constants/Inductives relying on type-in-type:(.*?)\n", co, re.S)
        ax = (m.group(1).strip() if m else "?")
        coqchk_info = dict(cmd="coqchk -silent -o -R theories V %s" % mod, exit_status=rc, axioms=ax)
        if rc != 0:
            problems.append(("proof", "coqchk rejects the compiled development:\n" + co[-2000:]))
        elif ax != "<none>":
            bad = [a for a in re.findall(r"^\s*(\S+)", ax, re.M) if a.split(".")[-1] not in ALLOWED_AXIOMS and a not in ALLOWED_AXIOMS]
            if bad:
                problems.append(("proof", "coqchk: development depends on undeclared axioms: " + ", ".join(bad)))
        notes.append("coqchk (independent checker) on %s: exit %d, axioms: %s" % (mod, rc, ax))
    hy = hygiene([pid] + list(getattr(prop, "DEPS", [])))
    if hy:
        problems.append(("proof", "forbidden construct in the development:\n" + "\n".join(hy[:20])))

    # 5. cases
    casefile = os.path.join(BUILD, "cases", "%s-%s-%d.tsv" % (pid, tier, seed))
    os.makedirs(os.path.dirname(casefile), exist_ok=True)
    cases, mism, specf, drive_extra = [], {}, [], {}
    def drive(tier_, path):
        extra = {}
        if hasattr(prop, "drive"):
            return prop.drive(sys.modules[__name__], exe_go, race_exe, tier_, seed, path, env)
        args = [exe_go, "-tier", tier_, "-out", path] + getattr(prop, "DRIVE_ARGS", [])
        rc, o = sh(args, env=env, timeout=getattr(prop, "DRIVE_TIMEOUT", 3000))
        return rc == 0, o, extra
    if ok:
        dok, do, drive_extra = drive(tier, casefile)
        if not dok:
            problems.append(("harness-run", "harness run failed:\n" + do[-3000:]))
        elif model_exe:
            for pr in drive_extra.get("problems", []):
                problems.append(tuple(pr))
            cases = read_cases(casefile)
            rc, done, mism, specf, mo = run_model(model_exe, casefile)
            if done is None:
                problems.append(("model-run", "model driver did not finish:\n" + mo[-2000:]))
        # widen the search when something broke and nothing concrete has been found yet
        if (problems or mism) and not specf and tier == "quick" and dok and model_exe and getattr(prop, "WIDEN", True):
            wide = os.path.join(BUILD, "cases", "%s-search-%d.tsv" % (pid, seed))
            dok2, do2, _ = drive("thorough", wide)
            if dok2:
                c2 = read_cases(wide)
                rc2, done2, mism2, specf2, _ = run_model(model_exe, wide)
                if specf2 or (mism2 and not mism):
                    cases, mism, specf, casefile = c2, mism2, specf2, wide
                notes.append("failing-input search widened to the thorough budget: %d cases, %d spec failures" % (len(c2), len(specf2)))

    # 6. verdict
    findings = load_findings(pid)
    known_hits, unlisted = {}, []
    for ln in specf:
        c = cases[ln - 1]
        f = match_finding(findings, c[0], c[1], c[3])
        if f:
            known_hits.setdefault(f["id"], [f, 0, c])
            known_hits[f["id"]][1] += 1
        else:
            unlisted.append(ln)
    violation_lines = []
    def write_replay(name, payload):
        path = os.path.join(ROOT, "replays", "%s-%s.json" % (pid, name))
        payload.update(property=pid, seed=seed, tier=tier)
        json.dump(payload, open(path, "w"), indent=1)
        return path
    if unlisted:
        # group by tag class to keep the report short, smallest input first
        by = {}
        for ln in unlisted:
            c = cases[ln - 1]
            by.setdefault(c[3].split(";")[0], []).append((len(c[1]), ln))
        for k, (tagclass, lst) in enumerate(sorted(by.items())):
            lst.sort()
            ln = lst[0][1]
            c = cases[ln - 1]
            path = write_replay("violation-%d" % k, dict(kind="spec-failure", fn=c[0], input=c[1], impl_output=c[2], tag=c[3],
                                model_output=mism.get(ln, "(model agrees with implementation)"), similar_cases=len(lst),
                                how_to_replay="python3 check.py %s --tier %s --seed %d --replay <this file>" % (pid, tier, seed)))
            violation_lines.append("VIOLATION property=%s replay=%s" % (pid, path))
            log("  spec predicate fails on fn=%s tag=%s input=%s impl=%s" % (c[0], c[3], shorten(c[1]), shorten(c[2])))
    mism_unexplained = [ln for ln in mism if ln not in specf]
    if not unlisted:
        if mism_unexplained:
            ln = sorted(mism_unexplained, key=lambda l: len(cases[l - 1][1]) if cases[l - 1] else 0)[0]
            c = cases[ln - 1] or ["", "", "", ""]
            path = write_replay("correspondence", dict(kind="correspondence-break", correspondence="model %s vs implementation" % prop.EXTRACT,
                                fn=c[0], input=c[1], impl_output=c[2], model_output=mism[ln], tag=c[3], disagreements=len(mism_unexplained), notes=notes))
            log("  model and implementation disagree on %d cases, e.g. fn=%s input=%s impl=%s model=%s" % (len(mism_unexplained), c[0], shorten(c[1]), shorten(c[2]), shorten(mism[ln])))
            violation_lines.append("VIOLATION property=%s replay=%s no-failing-input-found" % (pid, path))
        elif problems and not (specf and not unlisted and all(k[0] == "proof" for k in problems) and False):
            kind, text = problems[0]
            path = write_replay("obligation", dict(kind=kind, what=text, theorem_file=prop.PROPS_V, all_problems=[p[0] for p in problems], notes=notes))
            log("  " + text[:1500])
            violation_lines.append("VIOLATION property=%s replay=%s no-failing-input-found" % (pid, path))
    for fid, (f, n, c) in sorted(known_hits.items()):
        log("KNOWN-FINDING: property=%s %s (%d cases, e.g. input=%s)" % (pid, f["what"], n, shorten(c[1], 120)))
    # findings that are checked by a dedicated scenario rather than a case line
    for line in drive_extra.get("known_lines", []):
        log(line)
    for line in drive_extra.get("violation_lines", []):
        violation_lines.append(line)

    # evidence
    real = [c for c in cases if c]
    nontriv = set()
    dist = {}
    for c in real:
        k = c[3].split(";")[0]
        dist[k] = dist.get(k, 0) + 1
        if prop.nontrivial(c):
            nontriv.add((c[0], c[1]))
    discharged = len(names) if (pok and not any(p[0] == "proof" for p in problems)) else 0
    ev = dict(property_id=pid, tier=tier, seed=seed, level="proof",
              coverage=dict(
                  obligations=len(names), discharged=discharged,
                  checker_cmd="make -j16 %s && coqc -R theories V %s  (Coq 8.16.1, full .vo build, in /verif/coq)" % (" ".join(prop.PROOF_VO), prop.PROPS_V),
                  trusted_base=prop.TRUSTED,
                  theorems=names, print_assumptions=dict(closed_under_global_context=closed, axioms=axioms),
                  evaluations=len(real), distinct_nontrivial=len(nontriv), rule=prop.RULE,
                  case_distribution=dist,
                  samples=[dict(fn=c[0], input=shorten(c[1], 200), impl_output=shorten(c[2], 200), tag=c[3]) for c in (real[:2] + real[len(real)//2:len(real)//2+2] + real[-2:])] or ["(no cases: harness did not run)"],
                  model_vs_impl_mismatches=len(mism), spec_failures=len(specf),
                  known=[dict(id=k, cases=v[1]) for k, v in known_hits.items()],
                  exhaustive=bool(getattr(prop, "EXHAUSTIVE", False)),
                  notes=notes + drive_extra.get("notes", []),
                  **({"coqchk": coqchk_info} if coqchk_info else {}),
                  **drive_extra.get("coverage", {})),
              assumptions=prop.ASSUMPTIONS, wall_s=round(time.time() - t0, 2), violations=len(violation_lines))
    json.dump(ev, open(os.path.join(ROOT, "evidence", pid + ".json"), "w"), indent=1)
    for l in violation_lines:
        log(l)
    # disk: large case files of a green run are not kept
    if not violation_lines:
        for f in (casefile, os.path.join(BUILD, "cases", "%s-search-%d.tsv" % (pid, seed))):
            try:
                if os.path.exists(f) and os.path.getsize(f) > 200 * 1024 * 1024:
                    os.remove(f)
            except OSError:
                pass
    if not violation_lines:
        log("OK property=%s tier=%s obligations=%d/%d cases=%d nontrivial=%d mismatches=%d wall=%.1fs" % (pid, tier, discharged, len(names), len(real), len(nontriv), len(mism), time.time() - t0))
    return 1 if violation_lines else 0

def replay(pid, path):
    r = json.load(open(path))
    tier, seed = r.get("tier", "quick"), int(r.get("seed", 1))
    log("replaying %s: %s" % (path, r.get("kind")))
    if r.get("kind") not in ("spec-failure", "correspondence-break"):
        return check(pid, tier, seed)
    prop = importlib.import_module("props." + pid.lower())
    rc = check(pid, tier, seed)
    for cf in (os.path.join(BUILD, "cases", "%s-%s-%d.tsv" % (pid, tier, seed)), os.path.join(BUILD, "cases", "%s-search-%d.tsv" % (pid, seed))):
        if os.path.exists(cf):
            for c in read_cases(cf):
                if c and c[0] == r["fn"] and c[1] == r["input"]:
                    log("replayed case now yields impl_output=%s (recorded %s)" % (shorten(c[2]), shorten(r["impl_output"])))
                    return rc
    log("replayed input was not regenerated (generator changed?)")
    return rc

def setup():
    t0 = time.time()
    props = sorted(os.path.basename(p)[:-3] for p in glob.glob(os.path.join(ROOT, "props", "c*.py")))
    # Go commands + tabulation
    for p in props:
        prop = importlib.import_module("props." + p)
        ok, o, exe = build_go(prop.GO_CMD)
        if not ok:
            log("setup: go build %s failed\n%s" % (prop.GO_CMD, o)); return 1
        if getattr(prop, "RACE", False):
            build_go(prop.GO_CMD, race=True)
        args = [exe]
        for g in getattr(prop, "GEN", []):
            args += ["-gen", os.path.join(COQ, "theories", g)]
        if len(args) > 1:
            rc, o = sh(args, env=goenv())
            if rc != 0:
                log("setup: tabulation %s failed\n%s" % (p, o)); return 1
    ok, o = coq_make([], timeout=7000)
    log(o[-2000:])
    if not ok:
        log("setup: coq build failed"); return 1
    for p in props:
        prop = importlib.import_module("props." + p)
        eok, eo, _ = extract_model(prop.ID, prop.EXTRACT, prop.MODEL_VO)
        if not eok:
            log("setup: extraction for %s failed\n%s" % (p, eo)); return 1
    log("setup done in %.0fs" % (time.time() - t0))
    return 0

def repo_lock():
    """checks share /repo; tools/seedrun.sh (which temporarily patches /repo) holds this lock exclusively"""
    if os.environ.get("VERIF_REPO_LOCKED"):
        return None
    os.makedirs(BUILD, exist_ok=True)
    f = open(os.path.join(BUILD, "repo.lock"), "w")
    fcntl.flock(f, fcntl.LOCK_SH)
    return f

if __name__ == "__main__":
    sys.path.insert(0, ROOT)
    _rl = repo_lock()
    ap = argparse.ArgumentParser()
    ap.add_argument("id")
    ap.add_argument("--tier", default=os.environ.get("VERIF_TIER", "quick"), choices=["quick", "thorough"])
    ap.add_argument("--seed", type=int, default=int(os.environ.get("VERIF_SEED", "1") or 1))
    ap.add_argument("--replay")
    a = ap.parse_args()
    if a.id == "setup":
        sys.exit(setup())
    if a.replay:
        sys.exit(replay(a.id.upper(), a.replay))
    sys.exit(check(a.id.upper(), a.tier, a.seed))
